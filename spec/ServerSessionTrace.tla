------------------------ MODULE ServerSessionTrace ------------------------
(***************************************************************************)
(* Trace validation of the production server session (E1).                 *)
(* The harness records, in one total order, every byte chunk delivered to  *)
(* the session (rx), every write it makes (tx), every authorization query  *)
(* (auth) and handler invocation (reads / write), commands, injected       *)
(* faults, the end of the session and quiescence points (q).  This module  *)
(* consumes that log line by line: input events update the reference state *)
(* through ServerRef!ProcessAll, output events must be exactly the next    *)
(* effect the reference prescribes, and at every quiescence point no       *)
(* prescribed effect may be outstanding.  An event with no matching action *)
(* (a panic, a stuck task, an unjustified call, a wrong byte) stops the    *)
(* behaviour there and the trace is rejected.                              *)
(***************************************************************************)
EXTENDS ServerRef, Json, IOUtils, TLC, SequencesExt

Rec == ndJsonDeserialize(IOEnv.TRACE)

VARIABLES l,      \* next line of the log
          cfg,    \* configuration of the running scenario
          db,     \* application database (written points)
          buf,    \* bytes received and not yet consumed by a complete frame
          exp,    \* effects prescribed and not yet observed
          st,     \* "none" | "run" | "ending" | "ended"
          wfail,  \* writing to the peer fails from now on
          hnd     \* the server handle still exists

vars == <<l, cfg, db, buf, exp, st, wfail, hnd>>

NoCfg == [framing |-> "tcp", units |-> {}, seed |-> 0,
          auth |-> [policy |-> "none", seed |-> 0, role |-> ""], holes |-> {}]

TraceInit ==
  /\ l = 1 /\ cfg = NoCfg /\ db = EmptyDb /\ buf = <<>> /\ exp = <<>>
  /\ st = "none" /\ wfail = FALSE /\ hnd = TRUE

Ev == Rec[l]
Is(name) == l <= Len(Rec) /\ Ev.e = name
Next1 == l' = l + 1

SeqToSet(s) == {s[i] : i \in 1..Len(s)}

(* a new scenario: everything is reset; nothing may be outstanding from the previous one *)
OnCfg ==
  /\ Is("cfg") /\ exp = <<>> /\ st \in {"none", "ended"}
  /\ cfg' = [framing |-> Ev.framing, units |-> SeqToSet(Ev.units), seed |-> Ev.seed,
             auth |-> Ev.auth, holes |-> SeqToSet(Ev.holes)]
  /\ db' = EmptyDb /\ buf' = <<>> /\ exp' = <<>> /\ st' = "run" /\ wfail' = FALSE /\ hnd' = TRUE
  /\ Next1

OnRx ==
  /\ Is("rx") /\ exp = <<>>
  /\ \/ /\ st = "run"
        \* the first frame whose outcome the properties leave open (ServerRef!AnyOpenFrame) settles, for the rest of the
        \* recorded run, which of the two admissible servers is being observed; the wrong guess dies at the next output
        /\ LET open == AnyOpenFrame(cfg, buf \o Ev.bytes) /\ "strictBC" \notin DOMAIN cfg IN
           \E sb \in (IF open THEN BOOLEAN ELSE {StrictBC(cfg)}) :
             LET c2 == IF open THEN ("strictBC" :> sb) @@ cfg ELSE cfg
                 r == ProcessAll(c2, db, buf \o Ev.bytes, wfail, <<>>) IN
             /\ exp' = r.ev /\ db' = r.db /\ buf' = r.buf /\ cfg' = c2
             /\ st' = IF r.dead THEN "ending" ELSE "run"
     \/ /\ st = "ended"          \* bytes sent to a session that is gone are lost
        /\ UNCHANGED <<exp, db, buf, st, cfg>>
  /\ UNCHANGED <<wfail, hnd>> /\ Next1

(* the next prescribed effect, observed *)
OnTx ==
  /\ Is("tx") /\ exp # <<>> /\ Head(exp).e = "tx" /\ Head(exp).bytes = Ev.bytes
  /\ exp' = Tail(exp) /\ UNCHANGED <<cfg, db, buf, st, wfail, hnd>> /\ Next1

OnAuth ==
  /\ Is("auth") /\ exp # <<>> /\ Head(exp).e = "auth"
  /\ LET x == Head(exp) IN
       /\ x.m = Ev.m /\ x.u = Ev.u /\ x.s = Ev.s /\ x.c = Ev.c /\ x.d = Ev.d
       /\ Ev.role = cfg.auth.role
  /\ exp' = Tail(exp) /\ UNCHANGED <<cfg, db, buf, st, wfail, hnd>> /\ Next1

OnReads ==
  /\ Is("reads") /\ exp # <<>> /\ Head(exp).e = "reads"
  /\ LET x == Head(exp) IN
       x.u = Ev.u /\ x.t = Ev.t /\ x.s = Ev.s /\ x.n = Ev.n /\ x.outs = Ev.outs
  /\ exp' = Tail(exp) /\ UNCHANGED <<cfg, db, buf, st, wfail, hnd>> /\ Next1

OnWrite ==
  /\ Is("write") /\ exp # <<>> /\ Head(exp).e = "write"
  /\ LET x == Head(exp) IN
       /\ x.u = Ev.u /\ x.m = Ev.m /\ x.s = Ev.s /\ x.vals = Ev.vals /\ x.out = Ev.out
       /\ Ev.contig = TRUE
  /\ exp' = Tail(exp) /\ UNCHANGED <<cfg, db, buf, st, wfail, hnd>> /\ Next1

OnEnd ==
  /\ Is("end") /\ exp # <<>> /\ Head(exp).e = "end" /\ Head(exp).reason = Ev.reason
  /\ st = "ending"
  /\ exp' = Tail(exp) /\ st' = "ended"
  \* bytes the peer sent that the session never read are gone with the connection
  /\ buf' = SubSeq(buf, 1, Len(buf) - Min2(Ev.unread, Len(buf)))
  /\ UNCHANGED <<cfg, db, wfail, hnd>> /\ Next1

Ending(reason) == exp' = <<[e |-> "end", reason |-> reason]>> /\ st' = "ending"

(* decode level changes are unobservable (C20): no prescribed effect changes *)
OnCmd ==
  /\ Is("cmd") /\ exp = <<>>
  /\ CASE Ev.kind = "decode" -> UNCHANGED <<exp, st, hnd>>
       [] Ev.kind \in {"shutdown", "final_shutdown"} ->
            /\ IF st = "run" /\ hnd THEN Ending("Shutdown") ELSE UNCHANGED <<exp, st>>
            /\ UNCHANGED hnd
       [] Ev.kind = "drop" ->
            /\ IF st = "run" /\ hnd THEN Ending("Shutdown") ELSE UNCHANGED <<exp, st>>
            /\ hnd' = FALSE
  /\ UNCHANGED <<cfg, db, buf, wfail>> /\ Next1

(* C07: shutdown handed in while input is continuously available.  The session's select! takes either branch, so any
   number of the pending requests may still be served -- but not all of them: with several hundred requests pending, a
   session that only ends once its input is exhausted is not honouring shutdown, it is starving it. *)
OnCmdRace ==
  /\ Is("cmd") /\ Ev.kind = "shutdown_race" /\ st = "run" /\ hnd /\ exp # <<>>
  /\ st' = "racing"
  /\ UNCHANGED <<cfg, db, buf, exp, wfail, hnd>> /\ Next1
OnEndRace ==
  /\ Is("end") /\ st = "racing" /\ Ev.reason = "Shutdown"
  /\ exp # <<>> /\ Head(exp).e # "tx"            \* at a request boundary, with requests still pending
  /\ exp' = <<>> /\ st' = "ended"
  /\ UNCHANGED <<cfg, db, buf, wfail, hnd>> /\ Next1

(* peer closes / the transport fails while the session waits for bytes *)
OnEof ==
  /\ (Is("eof") \/ Is("rerr")) /\ exp = <<>>
  /\ IF st = "run" THEN Ending("Io") ELSE UNCHANGED <<exp, st>>
  /\ UNCHANGED <<cfg, db, buf, wfail, hnd>> /\ Next1

OnWerr ==
  /\ Is("werr") /\ exp = <<>> /\ wfail' = TRUE
  /\ UNCHANGED <<cfg, db, buf, exp, st, hnd>> /\ Next1

(* the RTU server re-opens its port and runs the same session again.  Whether bytes left in the
   reader by the previous run survive the re-open is not part of any property: both are allowed. *)
OnReopen ==
  /\ Is("reopen") /\ exp = <<>> /\ st = "ended"
  /\ wfail' = FALSE
  /\ IF hnd
     THEN \E keep \in {buf, <<>>} :
            LET r == ProcessAll(cfg, db, keep, FALSE, <<>>) IN
              /\ exp' = r.ev /\ db' = r.db /\ buf' = r.buf
              /\ st' = IF r.dead THEN "ending" ELSE "run"
     ELSE Ending("Shutdown") /\ UNCHANGED <<db, buf>>
  /\ UNCHANGED <<cfg, hnd>> /\ Next1

(* quiescence: every prescribed effect has been observed *)
OnQuiet ==
  /\ Is("q") /\ exp = <<>> /\ st \in {"run", "ended"}
  /\ UNCHANGED <<cfg, db, buf, exp, st, wfail, hnd>> /\ Next1

TraceNext == OnCmdRace \/ OnEndRace \/ OnCfg \/ OnRx \/ OnTx \/ OnAuth \/ OnReads \/ OnWrite \/ OnEnd \/ OnCmd
             \/ OnEof \/ OnWerr \/ OnReopen \/ OnQuiet

TraceSpec == TraceInit /\ [][TraceNext]_vars

(***************************************************************************)
(* Invariants evaluated on every state of the matched behaviour.           *)
(***************************************************************************)
ExpWellFormed ==
  \A i \in 1..Len(exp) :
     exp[i].e = "tx" =>
        IF cfg.framing = "tcp" THEN MbapWellFormed(exp[i].bytes) ELSE RtuWellFormed(exp[i].bytes)

(* acceptance: the furthest line reached, kept in a TLC register (needs -workers 1) *)
Furthest ==
  \/ TLCGet(1) >= l
  \/ /\ TLCSet(1, l)
     /\ TLCSet(2, [st |-> st, exp |-> IF exp = <<>> THEN "none" ELSE ToJson(Head(exp)),
                   pending |-> Len(exp), buffered |-> Len(buf)])

TraceAccepted ==
  IF TLCGet(1) = Len(Rec) + 1 THEN TRUE
  ELSE /\ PrintT(<<"REJECT", TLCGet(1), ToJson(TLCGet(2))>>)
       /\ FALSE

ASSUME TLCSet(1, 0) /\ TLCSet(2, "none")
=============================================================================
