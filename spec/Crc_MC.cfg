SPECIFICATION Spec
CONSTANTS N = 64
INVARIANT Lemma
