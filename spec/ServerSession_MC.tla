-------------------------- MODULE ServerSession_MC --------------------------
(***************************************************************************)
(* Design-level model of the server session's frame handling, one action   *)
(* per step of SessionTask::handle_frame IN THE CODE'S ORDER               *)
(*   function lookup -> parse -> authorization -> unit lookup ->           *)
(*   handler under the mutex (or broadcast fan-out) -> write               *)
(* checked against (1) the declarative reference ServerRef!HandleFrame     *)
(* and (2) the statements of C01 / C02 / C08 / C17 written directly over   *)
(* the frame and the emitted effects, for every frame of a scaled          *)
(* universe (all short byte strings plus structured multi-write bodies     *)
(* behind known and unknown function codes, every probed unit id, both     *)
(* framings, several authorization policies).                              *)
(*                                                                         *)
(* ErrorRepliesBeforeUnitLookup = TRUE is the order the pinned tree had    *)
(* (finding F5): TLC refutes SilentUnlessAddressed with it (kept as the    *)
(* negative control of this model).                                        *)
(***************************************************************************)
EXTENDS ServerRef, TLC

CONSTANTS Units, ProbeUnits, Fcs, Bytes, TailBytes, HoleSet, Policies, Framings,
          ErrorRepliesBeforeUnitLookup

VARIABLES cfg, pc, fr, req, db, evs, todo

vars == <<cfg, pc, fr, req, db, evs, todo>>

RECURSIVE SeqsUpTo(_, _)
SeqsUpTo(S, n) == IF n = 0 THEN {<<>>}
                  ELSE LET R == SeqsUpTo(S, n - 1) IN R \cup {Append(q, x) : q \in {r \in R : Len(r) = n - 1}, x \in S}

ShortBodies == SeqsUpTo(Bytes, 4)
Headers == {<<0, a, 0, c>> : a \in {0, 1, 2, 7}, c \in {0, 1, 2, 3, 4}}
LongBodies == {h \o t : h \in Headers, t \in (SeqsUpTo(TailBytes, 4) \ {<<>>})}
Pdus == {<<>>} \cup {<<f>> \o b : f \in Fcs, b \in ShortBodies \cup LongBodies}

HoleSetDef == {[u |-> 1, t |-> 2, a |-> 1, code |-> 4], [u |-> 2, t |-> 0, a |-> 0, code |-> 2]}

Db0 == [k \in {<<1, 2, 0>>} |-> 77]      \* one point already written

Init ==
  /\ cfg \in {[framing |-> f, units |-> Units, seed |-> 1,
               auth |-> [policy |-> p, seed |-> 1, role |-> "r"], holes |-> HoleSet]
              : f \in Framings, p \in Policies}
  /\ pc = "recv" /\ fr = [tx |-> 0, unit |-> 0, pdu |-> <<>>]
  /\ req = ParseRequest(<<>>) /\ db = Db0 /\ evs = <<>> /\ todo = <<>>

Bc == IsBroadcast(cfg, fr.unit)
Mine == fr.unit \in cfg.units
TxEv(pdu) == [e |-> "tx", bytes |-> FrameBytes(cfg, fr.tx, fr.unit, pdu)]

Recv ==
  /\ pc = "recv"
  /\ \E u \in ProbeUnits, p \in Pdus : fr' = [tx |-> 3, unit |-> u, pdu |-> p]
  /\ pc' = "function" /\ evs' = <<>> /\ UNCHANGED <<cfg, req, db, todo>>

(* cursor.read_u8 / FunctionCode::get *)
Function ==
  /\ pc = "function"
  /\ req' = ParseRequest(fr.pdu)
  /\ IF Len(fr.pdu) = 0 THEN pc' = "done" /\ UNCHANGED evs
     ELSE IF fr.pdu[1] \notin KnownFcs THEN
          /\ pc' = "done"
          /\ evs' = IF ~Bc /\ (Mine \/ ErrorRepliesBeforeUnitLookup)
                    THEN Append(evs, TxEv(ExceptionPdu(fr.pdu[1], ExIllegalFunction))) ELSE evs
     ELSE pc' = "parse" /\ UNCHANGED evs
  /\ UNCHANGED <<cfg, fr, db, todo>>

(* Request::parse *)
Parse ==
  /\ pc = "parse"
  /\ IF req.tag = "invalid" THEN
          /\ pc' = "done"
          /\ evs' = IF ~Bc /\ (Mine \/ ErrorRepliesBeforeUnitLookup)
                    THEN Append(evs, TxEv(ExceptionPdu(req.fc, ExIllegalDataValue))) ELSE evs
     ELSE pc' = "auth" /\ UNCHANGED evs
  /\ UNCHANGED <<cfg, fr, req, db, todo>>

(* AuthorizationType::is_authorized *)
Auth ==
  /\ pc = "auth"
  /\ IF ~HasAuth(cfg) THEN pc' = "unit" /\ UNCHANGED evs
     ELSE LET d == AuthDecision(cfg, req, fr.unit)
              a == [e |-> "auth", m |-> Method(req.fc), u |-> fr.unit, s |-> req.start, c |-> AuthCount(req), d |-> d]
          IN IF d THEN pc' = "unit" /\ evs' = Append(evs, a)
             ELSE /\ pc' = "done"
                  /\ evs' = IF Bc THEN Append(evs, a)
                            ELSE Append(evs, a) \o <<TxEv(ExceptionPdu(req.fc, ExIllegalFunction))>>
  /\ UNCHANGED <<cfg, fr, req, db, todo>>

(* handlers.get(unit) / broadcast *)
Unit ==
  /\ pc = "unit"
  /\ IF Bc THEN
        IF req.fc \in ReadFcs THEN pc' = "done" /\ UNCHANGED todo
        ELSE pc' = "fanout" /\ todo' = SortedSeq(cfg.units)
     ELSE IF ~Mine THEN pc' = "done" /\ UNCHANGED todo
     ELSE pc' = "exec" /\ UNCHANGED todo
  /\ UNCHANGED <<cfg, fr, req, db, evs>>

(* request.get_reply(handler.lock()) ; io.write *)
Exec ==
  /\ pc = "exec"
  /\ LET r == ExecOnUnit(cfg, db, fr.unit, req) IN
       /\ evs' = evs \o r.ev \o <<TxEv(r.pdu)>>
       /\ db' = r.db
  /\ pc' = "done" /\ UNCHANGED <<cfg, fr, req, todo>>

(* for handler in handlers.iter_mut() { request.execute(handler.lock()) } *)
Fanout ==
  /\ pc = "fanout"
  /\ IF todo = <<>> THEN pc' = "done" /\ UNCHANGED <<evs, db, todo>>
     ELSE LET r == ExecOnUnit(cfg, db, Head(todo), req) IN
            /\ evs' = evs \o r.ev /\ db' = r.db /\ todo' = Tail(todo) /\ pc' = "fanout"
  /\ UNCHANGED <<cfg, fr, req>>

Next == Recv \/ Function \/ Parse \/ Auth \/ Unit \/ Exec \/ Fanout
Spec == Init /\ [][Next]_vars

(***************************************************************************)
(* Properties, evaluated when a frame has been fully handled               *)
(***************************************************************************)
Done == pc = "done"
Ref == HandleFrame(cfg, Db0, fr)

EvKinds(k) == {i \in 1..Len(evs) : evs[i].e = k}
Calls == {i \in 1..Len(evs) : evs[i].e \in {"reads", "write"}}
Denied == HasAuth(cfg) /\ req.tag = "ok" /\ ~AuthDecision(cfg, req, fr.unit)

\* the code's step order yields exactly the reference behaviour
OperationalMatchesReference == Done => (evs = Ref.ev /\ db = Ref.db)

\* C01: exactly one reply per non-empty request addressed to a configured unit, echoing tx and unit ids
OneReplyWhenAddressed ==
  (Done /\ Mine /\ ~Bc /\ fr.pdu # <<>>) =>
     /\ Cardinality(EvKinds("tx")) = 1
     /\ LET b == evs[CHOOSE i \in EvKinds("tx") : TRUE].bytes IN
          IF cfg.framing = "tcp" THEN b[1] * 256 + b[2] = fr.tx /\ b[7] = fr.unit ELSE b[1] = fr.unit
ExceptionCodes ==
  (Done /\ Mine /\ ~Bc /\ fr.pdu # <<>>) =>
     LET b == evs[CHOOSE i \in EvKinds("tx") : TRUE].bytes
         pdu == IF cfg.framing = "tcp" THEN SubSeq(b, 8, Len(b)) ELSE SubSeq(b, 2, Len(b) - 2)
     IN /\ (req.tag = "unknownfc" => pdu = <<FcWithError(req.fc), 1>>)
        /\ (req.tag = "invalid" => pdu = <<req.fc + 128, 3>>)
        /\ (Denied => pdu = <<req.fc + 128, 1>>)

\* C17 / C01: silent unless addressed (the authorization veto is the stated carve-out)
SilentUnlessAddressed == (Done /\ ~Mine /\ ~Bc /\ ~Denied) => EvKinds("tx") = {}
BroadcastNeverAnswered == (Done /\ Bc) => EvKinds("tx") = {}
BroadcastOnceEach ==
  (Done /\ Bc /\ req.tag = "ok" /\ req.fc \notin ReadFcs /\ ~Denied) =>
     \A u \in cfg.units : Cardinality({i \in Calls : evs[i].u = u /\ evs[i].e = "write"}) = 1
BroadcastReadsIgnored == (Done /\ Bc /\ req.tag = "ok" /\ req.fc \in ReadFcs) => Calls = {}
EmptyNeverAnswered == (Done /\ fr.pdu = <<>>) => evs = <<>>

\* C02: handlers are invoked only for valid, addressed, permitted requests, with what was sent
CallsJustified ==
  (Done /\ Calls # {}) =>
     /\ req.tag = "ok" /\ (Mine \/ Bc) /\ ~Denied
     /\ \A i \in Calls :
          /\ evs[i].u \in cfg.units
          /\ evs[i].e = "write" => (evs[i].vals = req.values /\ evs[i].s = req.start)
          /\ evs[i].e = "reads" => (evs[i].s = req.start /\ evs[i].n <= req.count /\ evs[i].n >= 1)
NoEffectWithoutCall == (Done /\ {i \in Calls : evs[i].e = "write"} = {}) => db = Db0

\* C08
DenyHasNoEffect == (Done /\ Denied) => (Calls = {} /\ db = Db0)
AuthBeforeEffect ==
  (Done /\ HasAuth(cfg) /\ Calls # {}) => \E a \in EvKinds("auth") : \A c \in Calls : a < c
AuthExactlyOnceForWellFormed ==
  (Done /\ HasAuth(cfg)) => Cardinality(EvKinds("auth")) = (IF req.tag = "ok" THEN 1 ELSE 0)
=============================================================================
