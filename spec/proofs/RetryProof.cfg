SPECIFICATION Spec
CONSTANTS
  MinD = 3
  MaxD = 20
INVARIANT Inv
CONSTRAINT MpBound
CHECK_DEADLOCK FALSE
