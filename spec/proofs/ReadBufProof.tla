--------------------------- MODULE ReadBufProof ---------------------------
(***************************************************************************)
(* Unbounded companion of ReadBuf_MC.tla (C05): the index arithmetic of    *)
(* ReadBuffer::read_some + the two-state frame parser, with the DATA       *)
(* abstracted away (the length field of a header is any value the parser   *)
(* accepts, the peer delivers any number of bytes).  Proved with TLAPS for *)
(* EVERY header size and EVERY maximum body length -- ReadBuf_MC checks    *)
(* capacities 5 and 6 only, the code uses 7 + 253 = 260:                   *)
(*   - the indices stay within the buffer (begin <= end <= CAP),           *)
(*   - a read is never issued with zero free space while the parser needs  *)
(*     more bytes (the spurious-disconnect bug class), because the parser  *)
(*     never waits for more than fits into the buffer after compaction.    *)
(* The actions are those of ReadBuf_MC with ShiftRule = "end" (compaction  *)
(* when end = CAP), projected on <<begin, end, pst, status, zero>>.        *)
(***************************************************************************)
EXTENDS Naturals, TLAPS

CONSTANTS HDR, MaxLen
ASSUME Domain == HDR \in Nat /\ MaxLen \in Nat /\ HDR >= 1 /\ MaxLen >= 1

CAP == HDR + MaxLen

VARIABLES begin, end, pst, status, zero
vars == <<begin, end, pst, status, zero>>

Init == begin = 0 /\ end = 0 /\ pst = 0 /\ status = "run" /\ zero = FALSE

Avail == end - begin

\* the header is consumed; the parser accepts a body length in 1..MaxLen or reports an error
ParseHeader ==
  /\ status = "run" /\ pst = 0 /\ Avail >= HDR
  /\ \/ status' = "err" /\ UNCHANGED pst
     \/ \E n \in 1..MaxLen : pst' = n /\ UNCHANGED status
  /\ begin' = begin + HDR
  /\ UNCHANGED <<end, zero>>

ParseBody ==
  /\ status = "run" /\ pst > 0 /\ Avail >= pst
  /\ begin' = begin + pst /\ pst' = 0
  /\ UNCHANGED <<end, status, zero>>

NeedMore == status = "run" /\ ((pst = 0 /\ Avail < HDR) \/ (pst > 0 /\ Avail < pst))

\* read_some: reset when empty, compact when end = CAP, then read 1..free bytes (or 0 = nothing fits)
Read ==
  /\ NeedMore
  /\ LET b0 == IF begin = end THEN 0 ELSE begin
         e0 == IF begin = end THEN 0 ELSE end
         b1 == IF e0 = CAP THEN 0 ELSE b0
         e1 == IF e0 = CAP THEN e0 - b0 ELSE e0
         free == CAP - e1
     IN /\ zero' = (zero \/ free = 0)
        /\ begin' = b1
        /\ IF free = 0 THEN status' = "eof" /\ end' = e1
           ELSE /\ \E n \in 1..free : end' = e1 + n
                /\ UNCHANGED status
  /\ UNCHANGED pst

Next == ParseHeader \/ ParseBody \/ Read
Spec == Init /\ [][Next]_vars

TypeOK == begin \in Nat /\ end \in Nat /\ pst \in Nat /\ status \in {"run", "err", "eof"} /\ zero \in BOOLEAN
Bounds == begin <= end /\ end <= CAP
NoZeroSpaceRead == ~zero /\ status # "eof"
Inv == TypeOK /\ Bounds /\ pst <= MaxLen /\ NoZeroSpaceRead

THEOREM InitInv == Init => Inv
  BY Domain DEF Init, Inv, TypeOK, Bounds, NoZeroSpaceRead, CAP

THEOREM StepInv == Inv /\ [Next]_vars => Inv'
<1> SUFFICES ASSUME Inv, [Next]_vars PROVE Inv'
  OBVIOUS
<1>1. CASE ParseHeader
  BY <1>1, Domain DEF ParseHeader, Inv, TypeOK, Bounds, NoZeroSpaceRead, CAP, Avail
<1>2. CASE ParseBody
  BY <1>2, Domain DEF ParseBody, Inv, TypeOK, Bounds, NoZeroSpaceRead, CAP, Avail
<1>3. CASE Read
  <2> DEFINE b0 == IF begin = end THEN 0 ELSE begin
             e0 == IF begin = end THEN 0 ELSE end
             b1 == IF e0 = CAP THEN 0 ELSE b0
             e1 == IF e0 = CAP THEN e0 - b0 ELSE e0
             free == CAP - e1
  <2>1. NeedMore /\ TypeOK /\ Bounds /\ pst <= MaxLen /\ ~zero /\ status # "eof"
    BY <1>3 DEF Read, Inv, NoZeroSpaceRead
  <2>2. b0 \in Nat /\ e0 \in Nat /\ b0 <= e0 /\ e0 <= CAP /\ e0 - b0 = end - begin
    BY <2>1, Domain DEF TypeOK, Bounds, CAP
  <2>3. end - begin < CAP
    BY <2>1, Domain DEF NeedMore, Avail, TypeOK, Bounds, CAP
  <2>4. b1 \in Nat /\ e1 \in Nat /\ b1 <= e1 /\ e1 < CAP
    BY <2>2, <2>3, Domain DEF CAP
  <2>5. free \in Nat /\ free > 0
    BY <2>4, Domain DEF CAP
  <2>6. zero' = FALSE /\ begin' = b1 /\ UNCHANGED <<status, pst>> /\ \E n \in 1..free : end' = e1 + n
    BY <1>3, <2>1, <2>5 DEF Read
  <2>7. end' \in Nat /\ begin' <= end' /\ end' <= CAP
    BY <2>4, <2>5, <2>6, Domain DEF CAP
  <2> QED BY <2>1, <2>4, <2>6, <2>7 DEF Inv, TypeOK, Bounds, NoZeroSpaceRead
<1>4. CASE UNCHANGED vars
  BY <1>4 DEF vars, Inv, TypeOK, Bounds, NoZeroSpaceRead
<1> QED BY <1>1, <1>2, <1>3, <1>4 DEF Next

THEOREM Safety == Spec => []Inv
<1>1. Init => Inv BY InitInv
<1>2. Inv /\ [Next]_vars => Inv' BY StepInv
<1> QED BY <1>1, <1>2, PTL DEF Spec
=============================================================================
