---------------------------- MODULE RetryProof ----------------------------
(***************************************************************************)
(* Unbounded safety of the doubling retry strategy (C14), proved with      *)
(* TLAPS for every min, max in Nat with 1 <= min <= max and every number   *)
(* of consecutive failures -- the model-checked Retry.tla / Client_MC      *)
(* cover a grid of (min, max) and bounded failure counts only.             *)
(*                                                                         *)
(* `cur` is the delay the next failed connect will return (the state of    *)
(* rodbus::retry::Doubling).  The ghost `mp` is min * 2^k for k            *)
(* consecutive failures: it starts at min, doubles with every failure and  *)
(* returns to min on reset, by construction.  The theorem says that the    *)
(* delay is always that closed form capped at max, and within [min, max].  *)
(***************************************************************************)
EXTENDS Naturals, TLAPS

CONSTANTS MinD, MaxD
ASSUME Domain == MinD \in Nat /\ MaxD \in Nat /\ 1 <= MinD /\ MinD <= MaxD

VARIABLES cur, mp, last          \* last: the delay returned by the latest call (0 before any)
vars == <<cur, mp, last>>

Min2(a, b) == IF a < b THEN a ELSE b

Init == cur = MinD /\ mp = MinD /\ last = 0

\* after_failed_connect(): returns cur, then doubles it capped at max
Failed == /\ last' = cur
          /\ cur' = Min2(2 * cur, MaxD)
          /\ mp' = 2 * mp
\* after_disconnect(): always min, no state change
Disconnect == last' = MinD /\ UNCHANGED <<cur, mp>>
\* reset(): after a successful connect
Reset == cur' = MinD /\ mp' = MinD /\ UNCHANGED last

Next == Failed \/ Disconnect \/ Reset
Spec == Init /\ [][Next]_vars

TypeOK == cur \in Nat /\ mp \in Nat /\ last \in Nat
ClosedForm == cur = Min2(mp, MaxD)
Bounds == MinD <= cur /\ cur <= MaxD
ReturnedBounds == last = 0 \/ (MinD <= last /\ last <= MaxD)
Inv == TypeOK /\ ClosedForm /\ Bounds /\ ReturnedBounds /\ MinD <= mp

MpBound == mp <= 64 * MaxD      \* for TLC only (sanity run of the same module)

THEOREM InitInv == Init => Inv
  BY Domain DEF Init, Inv, TypeOK, ClosedForm, Bounds, ReturnedBounds, Min2

THEOREM StepInv == Inv /\ [Next]_vars => Inv'
<1> SUFFICES ASSUME Inv, [Next]_vars PROVE Inv'
  OBVIOUS
<1>1. CASE Failed
  BY <1>1, Domain DEF Failed, Inv, TypeOK, ClosedForm, Bounds, ReturnedBounds, Min2
<1>2. CASE Disconnect
  BY <1>2, Domain DEF Disconnect, Inv, TypeOK, ClosedForm, Bounds, ReturnedBounds, Min2
<1>3. CASE Reset
  BY <1>3, Domain DEF Reset, Inv, TypeOK, ClosedForm, Bounds, ReturnedBounds, Min2
<1>4. CASE UNCHANGED vars
  BY <1>4 DEF vars, Inv, TypeOK, ClosedForm, Bounds, ReturnedBounds
<1> QED BY <1>1, <1>2, <1>3, <1>4 DEF Next

THEOREM Safety == Spec => []Inv
<1>1. Init => Inv BY InitInv
<1>2. Inv /\ [Next]_vars => Inv' BY StepInv
<1> QED BY <1>1, <1>2, PTL DEF Spec
=============================================================================
