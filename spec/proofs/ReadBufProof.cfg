SPECIFICATION Spec
CONSTANTS
  HDR = 2
  MaxLen = 4
INVARIANT Inv
CHECK_DEADLOCK FALSE
