----------------------------- MODULE TxIdProof -----------------------------
(***************************************************************************)
(* C11: the 16-bit transaction id advances by one per request taken from   *)
(* the queue and wraps after 65535.  Client_MC checks the matching rule    *)
(* with the id space scaled down to 4; here the arithmetic facts the       *)
(* property rests on are proved for the real id space:                     *)
(*   - the successor stays in range and is never the id itself,            *)
(*   - a request that is k steps later (0 < k < 65536) never carries the   *)
(*     same id: a reply that is stale by 1 .. 65535 requests can always be *)
(*     told from the genuine one, and only after exactly 65536 further     *)
(*     requests does an id come round again.                               *)
(***************************************************************************)
EXTENDS Integers, TLAPS

M == 65536
Next(x) == (x + 1) % M
After(x, k) == (x + k) % M            \* the id k requests later (k applications of Next)

THEOREM NextInRange == \A x \in 0..(M - 1) : Next(x) \in 0..(M - 1) /\ Next(x) # x
  BY SMT DEF Next, M

THEOREM AfterStep == \A x \in 0..(M - 1), k \in 0..(M - 1) : Next(After(x, k)) = After(x, k + 1)
  BY SMT DEF Next, After, M

THEOREM StaleNeverMatches == \A x \in 0..(M - 1), k \in 1..(M - 1) : After(x, k) # x
  BY SMT DEF After, M

THEOREM FullCircle == \A x \in 0..(M - 1) : After(x, M) = x
  BY SMT DEF After, M
=============================================================================
