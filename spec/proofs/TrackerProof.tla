---------------------------- MODULE TrackerProof ----------------------------
(***************************************************************************)
(* C15: the session table of the TCP / TLS server task                     *)
(* (tcp::server::SessionTracker: a map keyed by a counter that only grows) *)
(* never holds more than max_sessions entries, a connection is evicted     *)
(* only when the table is full, and the evicted one is the oldest -- for   *)
(* EVERY max_sessions >= 1 and any number of connections, closes and       *)
(* evictions in any order.  ServerTask_MC explores the same bookkeeping    *)
(* together with the queues for max_sessions <= 3 and <= 6 connections;    *)
(* this module lifts the table's invariants to all parameters with TLAPS.  *)
(*                                                                         *)
(* `evicted` is a ghost: the id removed by the latest Accept (or NoId).     *)
(***************************************************************************)
EXTENDS Naturals, FiniteSets, FiniteSetTheorems, TLAPS

CONSTANT M                          \* max_sessions after the "0 means 1" rule
ASSUME MPos == M \in Nat /\ M >= 1

NoId == 0 - 1                        \* not a natural number (only ever compared with naturals)

VARIABLES tracked, nextId, evicted, wasFull
vars == <<tracked, nextId, evicted, wasFull>>

IsOldest(i, S) == i \in S /\ \A j \in S : i <= j

Init == tracked = {} /\ nextId = 0 /\ evicted = NoId /\ wasFull = FALSE

\* SessionTracker::add
Accept ==
  /\ wasFull' = (Cardinality(tracked) >= M)
  /\ IF Cardinality(tracked) >= M
     THEN \E o \in tracked : /\ IsOldest(o, tracked)
                             /\ tracked' = (tracked \ {o}) \cup {nextId}
                             /\ evicted' = o
     ELSE /\ tracked' = tracked \cup {nextId}
          /\ evicted' = NoId
  /\ nextId' = nextId + 1

\* SessionTracker::remove (a close notification; the id may be gone already)
Remove == /\ \E i \in Nat : tracked' = tracked \ {i}
          /\ UNCHANGED <<nextId, evicted, wasFull>>

\* shutdown: every sender is dropped
Clear == tracked' = {} /\ UNCHANGED <<nextId, evicted, wasFull>>

Next == Accept \/ Remove \/ Clear
Spec == Init /\ [][Next]_vars

TypeOK == tracked \in SUBSET Nat /\ IsFiniteSet(tracked) /\ nextId \in Nat
Bounded == Cardinality(tracked) <= M
Fresh == \A i \in tracked : i < nextId          \* ids are never reused: the next id is newer than every tracked one
Inv == TypeOK /\ Bounded /\ Fresh

\* what an Accept step guarantees (action-level): the new id is tracked afterwards, nothing is evicted unless the
\* table was full, and what is evicted was the oldest entry
AcceptRule ==
  Accept => /\ nextId \in tracked'
            /\ (Cardinality(tracked) < M => tracked \subseteq tracked')
            /\ (Cardinality(tracked) >= M => \E o \in tracked : IsOldest(o, tracked) /\ tracked' = (tracked \ {o}) \cup {nextId})

THEOREM InitInv == Init => Inv
  BY MPos, FS_EmptySet DEF Init, Inv, TypeOK, Bounded, Fresh

THEOREM StepInv == Inv /\ [Next]_vars => Inv'
<1> SUFFICES ASSUME Inv, [Next]_vars PROVE Inv'
  OBVIOUS
<1> USE MPos
<1>c. Cardinality(tracked) \in Nat
  BY FS_CardinalityType DEF Inv, TypeOK
<1>1. CASE Accept
  <2>1. CASE Cardinality(tracked) >= M
    <3>1. PICK o \in tracked : tracked' = (tracked \ {o}) \cup {nextId}
      BY <1>1, <2>1 DEF Accept
    <3>2. IsFiniteSet(tracked \ {o}) /\ Cardinality(tracked \ {o}) = Cardinality(tracked) - 1
      BY FS_RemoveElement DEF Inv, TypeOK
    <3>3. IsFiniteSet(tracked') /\ Cardinality(tracked') <= Cardinality(tracked \ {o}) + 1
      <4>1. Cardinality(tracked \ {o}) \in Nat
        BY <3>2, FS_CardinalityType
      <4> QED BY <3>1, <3>2, <4>1, FS_AddElement
    <3>4. Cardinality(tracked') <= M
      <4>1. Cardinality(tracked \ {o}) \in Nat /\ Cardinality(tracked') \in Nat
        BY <3>2, <3>3, FS_CardinalityType
      <4> QED BY <3>2, <3>3, <4>1, <1>c DEF Inv, Bounded
    <3>5. tracked' \in SUBSET Nat /\ nextId' \in Nat /\ \A i \in tracked' : i < nextId'
      BY <3>1, <1>1 DEF Accept, Inv, TypeOK, Fresh
    <3> QED BY <3>3, <3>4, <3>5 DEF Inv, TypeOK, Bounded, Fresh
  <2>2. CASE ~(Cardinality(tracked) >= M)
    <3>1. tracked' = tracked \cup {nextId}
      BY <1>1, <2>2 DEF Accept
    <3>2. IsFiniteSet(tracked') /\ Cardinality(tracked') <= Cardinality(tracked) + 1
      BY <3>1, <1>c, FS_AddElement DEF Inv, TypeOK
    <3>3. Cardinality(tracked') <= M
      BY <3>2, <2>2, <1>c, FS_CardinalityType
    <3>4. tracked' \in SUBSET Nat /\ nextId' \in Nat /\ \A i \in tracked' : i < nextId'
      BY <3>1, <1>1 DEF Accept, Inv, TypeOK, Fresh
    <3> QED BY <3>2, <3>3, <3>4 DEF Inv, TypeOK, Bounded, Fresh
  <2> QED BY <2>1, <2>2
<1>2. CASE Remove
  <2>1. PICK i \in Nat : tracked' = tracked \ {i}
    BY <1>2 DEF Remove
  <2>2. IsFiniteSet(tracked') /\ Cardinality(tracked') <= Cardinality(tracked)
    BY <2>1, <1>c, FS_RemoveElement DEF Inv, TypeOK
  <2>3. Cardinality(tracked') \in Nat
    BY <2>2, FS_CardinalityType
  <2> QED BY <2>1, <2>2, <2>3, <1>c, <1>2 DEF Remove, Inv, TypeOK, Bounded, Fresh
<1>3. CASE Clear
  BY <1>3, FS_EmptySet DEF Clear, Inv, TypeOK, Bounded, Fresh
<1>4. CASE UNCHANGED vars
  BY <1>4 DEF vars, Inv, TypeOK, Bounded, Fresh
<1> QED BY <1>1, <1>2, <1>3, <1>4 DEF Next

THEOREM Safety == Spec => []Inv
<1>1. Init => Inv BY InitInv
<1>2. Inv /\ [Next]_vars => Inv' BY StepInv
<1> QED BY <1>1, <1>2, PTL DEF Spec

\* the new connection always gets in; eviction only from a full table, and only of the oldest
THEOREM AcceptIsFair == Inv => AcceptRule
<1> SUFFICES ASSUME Inv, Accept PROVE /\ nextId \in tracked'
                                      /\ (Cardinality(tracked) < M => tracked \subseteq tracked')
                                      /\ (Cardinality(tracked) >= M => \E o \in tracked : IsOldest(o, tracked) /\ tracked' = (tracked \ {o}) \cup {nextId})
  BY DEF AcceptRule
<1> USE MPos
<1>c. Cardinality(tracked) \in Nat
  BY FS_CardinalityType DEF Inv, TypeOK
<1>1. CASE Cardinality(tracked) >= M
  BY <1>1, <1>c DEF Accept
<1>2. CASE ~(Cardinality(tracked) >= M)
  BY <1>2, <1>c DEF Accept
<1> QED BY <1>1, <1>2

\* an entry is never outlived by a younger one through eviction: whoever is evicted is older than everything that stays
THEOREM EvictionSparesTheYounger ==
  ASSUME Inv, Accept, Cardinality(tracked) >= M
  PROVE  \A j \in tracked' : evicted' < j
<1>1. PICK o \in tracked : IsOldest(o, tracked) /\ tracked' = (tracked \ {o}) \cup {nextId} /\ evicted' = o
  BY DEF Accept
<1>2. o \in Nat /\ o < nextId /\ nextId \in Nat
  BY <1>1 DEF Inv, TypeOK, Fresh
<1>3. \A j \in tracked \ {o} : j \in Nat /\ o <= j /\ j # o
  BY <1>1 DEF IsOldest, Inv, TypeOK
<1> QED BY <1>1, <1>2, <1>3
=============================================================================
