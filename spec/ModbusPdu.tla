----------------------------- MODULE ModbusPdu -----------------------------
(***************************************************************************)
(* Pure operators: the Modbus application protocol as the properties state *)
(* it (C01-C04).  Bytes are naturals 0..255, PDUs are sequences of bytes   *)
(* starting with the function code.  Nothing here mirrors the code's       *)
(* structure: it is the declarative reference the code is judged against.  *)
(*                                                                         *)
(* The four quantity limits and the size of the address space are          *)
(* CONSTANTS so that the _MC modules can scale them down; the trace specs  *)
(* instantiate the real values (2000 / 125 / 1968 / 123 / 65536).          *)
(***************************************************************************)
EXTENDS Naturals, Sequences, FiniteSets

CONSTANTS MaxReadBits, MaxReadRegs, MaxWriteCoils, MaxWriteRegs, AddrSpace

Hi(x) == (x \div 256) % 256
Lo(x) == x % 256
U16(h, l) == h * 256 + l
U16Bytes(x) == <<Hi(x), Lo(x)>>

Min2(a, b) == IF a < b THEN a ELSE b
Max2(a, b) == IF a > b THEN a ELSE b

FcReadCoils == 1
FcReadDiscrete == 2
FcReadHolding == 3
FcReadInput == 4
FcWriteCoil == 5
FcWriteReg == 6
FcWriteCoils == 15
FcWriteRegs == 16

ReadFcs == {1, 2, 3, 4}
BitReadFcs == {1, 2}
RegReadFcs == {3, 4}
KnownFcs == {1, 2, 3, 4, 5, 6, 15, 16}

CoilOn == 65280   \* 0xFF00
CoilOff == 0

ExIllegalFunction == 1
ExIllegalDataAddress == 2
ExIllegalDataValue == 3

NumBytesForBits(c) == (c + 7) \div 8

Pow2(i) == CASE i = 0 -> 1 [] i = 1 -> 2 [] i = 2 -> 4 [] i = 3 -> 8
             [] i = 4 -> 16 [] i = 5 -> 32 [] i = 6 -> 64 [] i = 7 -> 128

BitOf(byte, i) == (byte \div Pow2(i)) % 2

(* bits: sequence of 0/1 -> bytes, least significant bit first, zero padded *)
PackBits(bits) ==
  [k \in 1..NumBytesForBits(Len(bits)) |->
      LET B(j) == IF 8 * (k - 1) + j + 1 <= Len(bits) THEN bits[8 * (k - 1) + j + 1] ELSE 0
      IN B(0) + 2 * B(1) + 4 * B(2) + 8 * B(3) + 16 * B(4) + 32 * B(5) + 64 * B(6) + 128 * B(7)]

(* first n bits of a packed byte sequence *)
UnpackBits(bytes, n) == [i \in 1..n |-> BitOf(bytes[((i - 1) \div 8) + 1], (i - 1) % 8)]

RegBytes(regs) == [k \in 1..(2 * Len(regs)) |->
                     IF k % 2 = 1 THEN Hi(regs[(k + 1) \div 2]) ELSE Lo(regs[k \div 2])]

RegsOf(bytes, n) == [i \in 1..n |-> U16(bytes[2 * i - 1], bytes[2 * i])]

ValidRange(s, c) == c >= 1 /\ s + c <= AddrSpace

ReadLimit(fc) == IF fc \in BitReadFcs THEN MaxReadBits ELSE MaxReadRegs

FcWithError(fc) == IF fc >= 128 THEN fc ELSE fc + 128

(***************************************************************************)
(* ParseRequest: what a server must make of a request PDU.                 *)
(*   tag = "empty"      no function code at all                            *)
(*   tag = "unknownfc"  function not supported           -> exception 01   *)
(*   tag = "invalid"    wrong length for its quantity, zero / overflowing  *)
(*                      range, undefined coil value, over limit -> exc 03  *)
(*   tag = "ok"         start, count, values (bits 0/1 or registers)       *)
(* Named leniency ByteCountFieldIgnored: for FC15/16 the declared byte     *)
(* count is not compared, only the real length ("wrong length for its      *)
(* quantity").                                                             *)
(***************************************************************************)
ParseRequest(pdu) ==
  IF Len(pdu) = 0 THEN [tag |-> "empty", fc |-> 0, start |-> 0, count |-> 0, values |-> <<>>]
  ELSE
  LET fc == pdu[1]
      n == Len(pdu) - 1          \* body length
      Bad == [tag |-> "invalid", fc |-> fc, start |-> 0, count |-> 0, values |-> <<>>]
      Ok(s, c, v) == [tag |-> "ok", fc |-> fc, start |-> s, count |-> c, values |-> v]
  IN
  IF fc \notin KnownFcs THEN [tag |-> "unknownfc", fc |-> fc, start |-> 0, count |-> 0, values |-> <<>>]
  ELSE IF n < 4 THEN Bad
  ELSE
  LET a == U16(pdu[2], pdu[3])
      b == U16(pdu[4], pdu[5])
  IN
  CASE fc \in ReadFcs ->
         IF n = 4 /\ ValidRange(a, b) /\ b <= ReadLimit(fc) THEN Ok(a, b, <<>>) ELSE Bad
    [] fc = FcWriteCoil ->
         IF n = 4 /\ b \in {CoilOn, CoilOff} THEN Ok(a, 1, <<IF b = CoilOn THEN 1 ELSE 0>>) ELSE Bad
    [] fc = FcWriteReg ->
         IF n = 4 THEN Ok(a, 1, <<b>>) ELSE Bad
    [] fc = FcWriteCoils ->
         IF n >= 5 /\ ValidRange(a, b) /\ b <= MaxWriteCoils /\ n = 5 + NumBytesForBits(b)
         THEN Ok(a, b, UnpackBits(SubSeq(pdu, 7, Len(pdu)), b)) ELSE Bad
    [] fc = FcWriteRegs ->
         IF n >= 5 /\ ValidRange(a, b) /\ b <= MaxWriteRegs /\ n = 5 + 2 * b
         THEN Ok(a, b, RegsOf(SubSeq(pdu, 7, Len(pdu)), b)) ELSE Bad

\* A write-multiple request that is valid by its real length whose byte-count FIELD says something else (possible with
\* MBAP framing only; on a serial line the field delimits the frame).  C01 / C02 name "wrong length for its quantity" and
\* do not mention the field: the implementation executes such a request (the leniency named above), a server that
\* validates the field answers exception 03.  The session-level trace specification accepts either, consistently per
\* recorded run; ParseRequest itself describes what the code does.
WriteByteCountFieldDisagrees(pdu) ==
  /\ Len(pdu) >= 6 /\ pdu[1] \in {FcWriteCoils, FcWriteRegs}
  /\ ParseRequest(pdu).tag = "ok"
  /\ LET c == U16(pdu[4], pdu[5])
         nb == IF pdu[1] = FcWriteCoils THEN NumBytesForBits(c) ELSE 2 * c
     IN pdu[6] # nb % 256

ExceptionPdu(fc, code) == <<FcWithError(fc), code>>

(* reply PDU for a successful request; vals = the values the handlers supplied (reads) *)
ReadReplyPdu(fc, vals) ==
  IF fc \in BitReadFcs
  THEN <<fc, NumBytesForBits(Len(vals))>> \o PackBits(vals)
  ELSE <<fc, 2 * Len(vals)>> \o RegBytes(vals)

WriteReplyPdu(req) ==
  CASE req.fc = FcWriteCoil -> <<req.fc>> \o U16Bytes(req.start) \o U16Bytes(IF req.values[1] = 1 THEN CoilOn ELSE CoilOff)
    [] req.fc = FcWriteReg -> <<req.fc>> \o U16Bytes(req.start) \o U16Bytes(req.values[1])
    [] OTHER -> <<req.fc>> \o U16Bytes(req.start) \o U16Bytes(req.count)

(***************************************************************************)
(* Client side.  A client request is [kind, start, count, values] with     *)
(* kind = its function code.  EncodeRequest gives the PDU or "reject".     *)
(***************************************************************************)
ClientRequestValid(r) ==
  CASE r.fc \in ReadFcs -> ValidRange(r.start, r.count) /\ r.count <= ReadLimit(r.fc)
    [] r.fc \in {FcWriteCoil, FcWriteReg} -> r.start < AddrSpace
    [] r.fc = FcWriteCoils -> ValidRange(r.start, r.count) /\ r.count <= MaxWriteCoils /\ Len(r.values) = r.count
    [] r.fc = FcWriteRegs -> ValidRange(r.start, r.count) /\ r.count <= MaxWriteRegs /\ Len(r.values) = r.count
    [] OTHER -> FALSE

EncodeRequest(r) ==
  CASE r.fc \in ReadFcs -> <<r.fc>> \o U16Bytes(r.start) \o U16Bytes(r.count)
    [] r.fc = FcWriteCoil -> <<r.fc>> \o U16Bytes(r.start) \o U16Bytes(IF r.values[1] = 1 THEN CoilOn ELSE CoilOff)
    [] r.fc = FcWriteReg -> <<r.fc>> \o U16Bytes(r.start) \o U16Bytes(r.values[1])
    [] r.fc = FcWriteCoils -> <<r.fc>> \o U16Bytes(r.start) \o U16Bytes(r.count)
                               \o <<NumBytesForBits(r.count)>> \o PackBits(r.values)
    [] r.fc = FcWriteRegs -> <<r.fc>> \o U16Bytes(r.start) \o U16Bytes(r.count)
                               \o <<2 * r.count>> \o RegBytes(r.values)

(***************************************************************************)
(* DecodeResponse: what a client must make of a reply PDU to request r.    *)
(*   [class |-> "ok", values]       values indexed upward from r.start     *)
(*   [class |-> "exc", code]        well-formed exception reply            *)
(*   [class |-> "err"]              everything else (never data)           *)
(* Named leniency ByteCountFieldIgnored for read replies: only the real    *)
(* length must be the one implied by the request.                          *)
(***************************************************************************)
\* A read reply of exactly the length the request implies whose byte-count FIELD says something else.  C04 demands
\* the length ("completes successfully only if ... has exactly the length implied by the request") and says nothing
\* about the field: the implementation takes such a reply (the leniency named above), a stricter client may refuse it.
\* Both are accepted by the trace specifications; DecodeResponse itself describes what the code does.
ByteCountFieldDisagrees(r, pdu) ==
  /\ Len(pdu) >= 2 /\ pdu[1] = r.fc /\ r.fc \in ReadFcs
  /\ LET nb == IF r.fc \in BitReadFcs THEN NumBytesForBits(r.count) ELSE 2 * r.count
     IN Len(pdu) = 2 + nb /\ pdu[2] # nb % 256

DecodeResponse(r, pdu) ==
  LET Err == [class |-> "err", code |-> 0, values |-> <<>>]
  IN
  IF Len(pdu) = 0 THEN Err
  ELSE IF pdu[1] = r.fc + 128 THEN
         IF Len(pdu) = 2 THEN [class |-> "exc", code |-> pdu[2], values |-> <<>>] ELSE Err
  ELSE IF pdu[1] # r.fc THEN Err
  ELSE
  CASE r.fc \in BitReadFcs ->
         IF Len(pdu) = 2 + NumBytesForBits(r.count)
         THEN [class |-> "ok", code |-> 0, values |-> UnpackBits(SubSeq(pdu, 3, Len(pdu)), r.count)]
         ELSE Err
    [] r.fc \in RegReadFcs ->
         IF Len(pdu) = 2 + 2 * r.count
         THEN [class |-> "ok", code |-> 0, values |-> RegsOf(SubSeq(pdu, 3, Len(pdu)), r.count)]
         ELSE Err
    [] OTHER ->
         \* writes: the reply must be the exact echo
         IF pdu = SubSeq(EncodeRequest(r), 1, 5)
         THEN [class |-> "ok", code |-> 0, values |-> <<>>]
         ELSE Err

=============================================================================
