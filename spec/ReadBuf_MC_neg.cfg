SPECIFICATION Spec
CONSTANTS
  MaxLen = 3
  MaxFrames = 3
  ShiftRule = "full"
INVARIANTS FramesArePrefix Complete ErrorIffMalformed NoMissedError NoZeroSpaceRead Bounds
CHECK_DEADLOCK FALSE
