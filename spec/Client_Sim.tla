----------------------------- MODULE Client_Sim -----------------------------
(***************************************************************************)
(* Specification -> implementation: TLC simulates the client model         *)
(* (Client.tla with the environment of Client_MC) and prints the sequence  *)
(* of ENVIRONMENT moves of each behaviour as JSON.  bin/check turns every  *)
(* printed sequence into a script for the e2_client harness, which replays *)
(* the moves against the production task under virtual time; the recorded  *)
(* run is then validated against ClientTrace.tla like any other trace.     *)
(* The model thus chooses interleavings (ticks landing exactly on          *)
(* deadlines, commands between a reply's fragments, connector results      *)
(* racing commands, ...) instead of a random generator.                    *)
(***************************************************************************)
EXTENDS Client_MC, Json

CONSTANTS Moves        \* number of environment moves per printed script

VARIABLE elog
svars == <<s, out, hist, subm, lst, bud, elog>>

Log(m) == elog' = Append(elog, m)

SimInit == InitMC /\ elog = <<>>

FrameKind(f) ==
  LET tx == s.cur.tx
      req == s.cur.req
  IN IF s.pc = "await"
     THEN CASE f = MbapFrame(tx, 1, GoodReplyPdu(req)) -> "good"
            [] f = MbapFrame((tx + TxMod - 1) % TxMod, 1, GoodReplyPdu(req)) -> "stale"
            [] f = MbapFrame(tx, 1, <<req.fc + 128, 2>>) -> "exc"
            [] f = MbapFrame(tx, 1, <<req.fc, 9, 9>>) -> "malformed"
            [] f = <<0, 0, 0, 1, 0, 2, 1, 3>> -> "badproto"
            [] OTHER -> "partial"
     ELSE IF f = <<0, 0, 0, 1, 0, 2, 1, 3>> THEN "badproto" ELSE "unsolicited"

SimEnv ==
  \/ \E r \in (1..NReq) \ subm :
        /\ Submit(ReqShape(r)) /\ subm' = subm \cup {r} /\ UNCHANGED bud
        /\ Log([op |-> "submit", r |-> r])
  \/ /\ bud.cmds < MaxCmds
     /\ \E t \in {"en", "dis", "dec", "shut"} : Command(t) /\ Log([op |-> "cmd", t |-> t])
     /\ bud' = [bud EXCEPT !.cmds = @ + 1] /\ UNCHANGED subm
  \/ /\ bud.cmds < MaxCmds /\ s.hnd /\ DropHandles /\ Log([op |-> "cmd", t |-> "drop"])
     /\ bud' = [bud EXCEPT !.cmds = @ + 1] /\ UNCHANGED subm
  \/ /\ WithAbort /\ bud.abort = 0 /\ Abort /\ Log([op |-> "cmd", t |-> "abort"])
     /\ bud' = [bud EXCEPT !.abort = 1] /\ UNCHANGED subm
  \/ /\ bud.peer < MaxPeer /\ s.conn = "open"
     /\ \E f \in PeerFrames : /\ PeerBytes(f)
                              /\ IF Mode = "serial" THEN Log([op |-> "peerbytes", bytes |-> f])
                                 ELSE Log([op |-> "peer", kind |-> FrameKind(f), fc |-> s.cur.req.fc])
     /\ bud' = [bud EXCEPT !.peer = @ + 1] /\ UNCHANGED subm
  \/ /\ bud.faults = 0 /\ s.conn = "open"
     /\ \/ PeerClose /\ Log([op |-> "eof"])
        \/ WriteBreaks /\ Log([op |-> "werr"])
     /\ bud' = [bud EXCEPT !.faults = 1] /\ UNCHANGED subm
  \/ /\ bud.ticks < MaxTicks /\ Tick(1) /\ Log([op |-> "tick"])
     /\ bud' = [bud EXCEPT !.ticks = @ + 1] /\ UNCHANGED subm
  \/ /\ Mode = "task" /\ s.attempts <= MaxAttempts
     /\ \E res \in {"ok", "err"} : ConnectorResult(res) /\ Log([op |-> "connector", res |-> res])
     /\ UNCHANGED <<bud, subm>>
  \/ /\ Mode = "serial" /\ s.attempts <= MaxAttempts /\ bud.cmds < MaxCmds
     /\ PortSet(~s.portOk) /\ Log([op |-> "port", ok |-> ~s.portOk])
     /\ bud' = [bud EXCEPT !.cmds = @ + 1] /\ UNCHANGED subm
  \/ /\ Mode = "session" /\ bud.conns < MaxAttempts /\ NewConnection /\ Log([op |-> "new_conn"])
     /\ bud' = [bud EXCEPT !.conns = @ + 1] /\ UNCHANGED subm

SimNext == /\ \/ TaskStep /\ UNCHANGED <<subm, bud, elog>>
              \/ SimEnv
           /\ Monitor

SimSpec == SimInit /\ [][SimNext]_svars

\* one line per behaviour: when the Moves-th environment move has just been made
PrintScript == (Len(elog') = Moves /\ Len(elog) = Moves - 1) => PrintT(<<"SCRIPT", ToJson(elog')>>)
=============================================================================
