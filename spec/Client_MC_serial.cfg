SPECIFICATION SpecMC
CONSTANTS
  MaxReadBits = 3
  MaxReadRegs = 2
  MaxWriteCoils = 3
  MaxWriteRegs = 2
  AddrSpace = 8
  TxMod = 4
  Bug = "none"
  Mode = "serial"
  NReq = 2
  MaxCmds = 3
  MaxPeer = 2
  MaxTicks = 3
  MaxAttempts = 2
  Cap = 1
  MaxTO = 0
  RMin = 1
  RMax = 2
  WithAbort = FALSE
INVARIANTS AtMostOnce NothingPendingAtEnd Conservation ShutdownOnlyWhenGone OneOutstanding CounterRule ListenerPathLegal FailFast ShutdownIsLast
PROPERTIES Classified OnlyMatchingCompletes TxAdvancesPerDequeue TimeoutNeverEarly NoLimitNeverDrops NoConnectWhileDisabled DelaysFollowStrategy OpenOutcome AttemptNotBeforeWake DecodeUnobservable
CHECK_DEADLOCK FALSE
