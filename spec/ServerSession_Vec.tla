-------------------------- MODULE ServerSession_Vec --------------------------
(***************************************************************************)
(* Specification -> implementation for the server session: TLC enumerates  *)
(* the request universe of ServerSession_MC (every byte string of up to 4  *)
(* body bytes over {0,1,2,255} and the structured multi-write bodies,      *)
(* behind known and unknown function codes) and prints it; bin/check frames *)
(* every PDU (TCP and, where the length table can delimit it, RTU) and      *)
(* replays it against the production session, judged by ServerSessionTrace *)
(* at the real constants.                                                  *)
(***************************************************************************)
EXTENDS ServerSession_MC, Json, IOUtils, SequencesExt

\* written to the file named by the environment variable OUT
ASSUME JsonSerialize(IOEnv.OUT, SetToSeq(Pdus))
=============================================================================
