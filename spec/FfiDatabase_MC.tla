--------------------------- MODULE FfiDatabase_MC ---------------------------
(***************************************************************************)
(* Atomicity of C-ABI database transactions (C19), design level.           *)
(* Writers run transactions that set every point of a block to one common  *)
(* value, one operation at a time; a reader (a client request served by    *)
(* the session task) reads the whole block.  The handler mutex is held for *)
(* the whole transaction (LockMode = "txn", what rodbus_server_update_     *)
(* database does) and for the whole read request.  With LockMode = "op"    *)
(* (lock per operation) TLC must find a torn read: negative control.       *)
(* lock: 0 = free, 99 = the reader, otherwise the writer holding it.       *)
(***************************************************************************)
EXTENDS Naturals, Sequences, FiniteSets, TLC

CONSTANTS Writers, Block, LockMode

VARIABLES mem, lock, wpc, wpos, rpc, rpos, seen
vars == <<mem, lock, wpc, wpos, rpc, rpos, seen>>

Init ==
  /\ mem = [i \in 1..Block |-> 0]
  /\ lock = 0
  /\ wpc = [w \in Writers |-> "idle"] /\ wpos = [w \in Writers |-> 1]
  /\ rpc = "idle" /\ rpos = 1 /\ seen = <<>>

Begin(w) == /\ wpc[w] = "idle" /\ lock = 0 /\ lock' = w
            /\ wpc' = [wpc EXCEPT ![w] = "run"] /\ wpos' = [wpos EXCEPT ![w] = 1]
            /\ UNCHANGED <<mem, rpc, rpos, seen>>
WriteOp(w) ==
  /\ wpc[w] = "run" /\ lock = w /\ wpos[w] <= Block
  /\ mem' = [mem EXCEPT ![wpos[w]] = w]
  /\ wpos' = [wpos EXCEPT ![w] = @ + 1]
  /\ lock' = IF LockMode = "op" THEN 0 ELSE w
  /\ wpc' = IF LockMode = "op" THEN [wpc EXCEPT ![w] = "between"] ELSE wpc
  /\ UNCHANGED <<rpc, rpos, seen>>
Relock(w) == /\ wpc[w] = "between" /\ lock = 0 /\ lock' = w /\ wpc' = [wpc EXCEPT ![w] = "run"]
             /\ UNCHANGED <<mem, wpos, rpc, rpos, seen>>
Commit(w) == /\ wpc[w] = "run" /\ lock = w /\ wpos[w] > Block
             /\ lock' = 0 /\ wpc' = [wpc EXCEPT ![w] = "done"]
             /\ UNCHANGED <<mem, wpos, rpc, rpos, seen>>
\* a writer that has reached the end of its block between two per-op locks
FinishOp(w) == /\ wpc[w] = "between" /\ wpos[w] > Block /\ wpc' = [wpc EXCEPT ![w] = "done"]
               /\ UNCHANGED <<mem, lock, wpos, rpc, rpos, seen>>

ReadBegin == /\ rpc = "idle" /\ lock = 0 /\ lock' = 99 /\ rpc' = "run" /\ rpos' = 1 /\ seen' = <<>>
             /\ UNCHANGED <<mem, wpc, wpos>>
ReadOp == /\ rpc = "run" /\ rpos <= Block /\ seen' = Append(seen, mem[rpos]) /\ rpos' = rpos + 1
          /\ UNCHANGED <<mem, lock, wpc, wpos, rpc>>
ReadEnd == /\ rpc = "run" /\ rpos > Block /\ lock' = 0 /\ rpc' = "idle"
           /\ UNCHANGED <<mem, wpc, wpos, rpos, seen>>

Next == (\E w \in Writers : Begin(w) \/ WriteOp(w) \/ Relock(w) \/ Commit(w) \/ FinishOp(w)) \/ ReadBegin \/ ReadOp \/ ReadEnd
Spec == Init /\ [][Next]_vars

\* a completed read observed one common value: never part of a transaction
ReadsSeeWholeTransactions ==
  (rpc = "run" /\ rpos > Block) => \A i, j \in 1..Block : seen[i] = seen[j]
MutualExclusion == Cardinality({w \in Writers : wpc[w] = "run"} \cup (IF rpc = "run" THEN {99} ELSE {})) <= 1
=============================================================================
