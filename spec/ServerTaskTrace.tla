-------------------------- MODULE ServerTaskTrace --------------------------
(***************************************************************************)
(* The TCP / TLS server task (C15, C16, C09 server side) and its trace     *)
(* validation.  One server per scenario, driven over loopback sockets; the *)
(* log interleaves what the peers do and see (connecting / connected /     *)
(* tls / req / rsp / close / send / peer_view), the commands given through *)
(* the server handle, the handler and authorization invocations, and the   *)
(* guarded hook events of the server task itself (filter decision, tracker *)
(* add with the evicted id and the size, tracker remove, server end).      *)
(*                                                                         *)
(* State of the reference: the tracker (session ids in age order), per     *)
(* connection what became of it, the shared application database, and the  *)
(* effects still outstanding for the request in flight.                    *)
(***************************************************************************)
EXTENDS ServerRef, AddressFilter, TlsAdmission, Json, IOUtils, TLC, SequencesExt

Rec == ndJsonDeserialize(IOEnv.TRACE)

VARIABLES l, sc, up, tracker, nextId, conn, pend, evp, db, exp, cur
vars == <<l, sc, up, tracker, nextId, conn, pend, evp, db, exp, cur>>

NoSc == [variant |-> "tcp", api |-> "rust", max |-> 1, filter |-> [kind |-> "any"], units |-> {}, seed |-> 0,
         mode |-> "ca", min |-> 12, trust |-> "", authz |-> FALSE, policy |-> "allow"]
NoConn == [src |-> <<>>, id |-> -1, st |-> "none", role |-> "", silent |-> FALSE]

TraceInit ==
  /\ l = 1 /\ sc = NoSc /\ up = FALSE /\ tracker = <<>> /\ nextId = 0
  /\ conn = [c \in 0..63 |-> NoConn] /\ pend = -1 /\ evp = {} /\ db = EmptyDb /\ exp = <<>> /\ cur = -1

Ev == Rec[l]
Is(name) == l <= Len(Rec) /\ Ev.e = name
Step == l' = l + 1
SeqToSet(q) == {q[i] : i \in 1..Len(q)}
M == IF sc.max = 0 THEN 1 ELSE sc.max            \* "0 sessions" means 1
ConnOf(id) == CHOOSE c \in 0..63 : conn[c].id = id
HasConn(id) == \E c \in 0..63 : conn[c].id = id

RefCfg == [framing |-> "tcp", units |-> sc.units, seed |-> sc.seed,
           auth |-> [policy |-> IF sc.authz THEN sc.policy ELSE "none", seed |-> 1, role |-> ""], holes |-> {}]

OnCfg ==
  /\ Is("srv_cfg") /\ exp = <<>>
  /\ sc' = [variant |-> Ev.variant, api |-> Ev.api, max |-> Ev.max_sessions, filter |-> Ev.filter,
            units |-> SeqToSet(Ev.units), seed |-> Ev.seed, mode |-> Ev.mode,
            min |-> IF Ev.min_tls = "1.3" THEN 13 ELSE 12, trust |-> Ev.peer_cert,
            authz |-> Ev.variant = "tls_authz", policy |-> Ev.auth]
  /\ up' = FALSE /\ tracker' = <<>> /\ nextId' = 0 /\ conn' = [c \in 0..63 |-> NoConn]
  /\ pend' = -1 /\ evp' = {} /\ db' = EmptyDb /\ exp' = <<>> /\ cur' = -1 /\ Step

OnListening == Is("listening") /\ up' = TRUE /\ UNCHANGED <<sc, tracker, nextId, conn, pend, evp, db, exp, cur>> /\ Step

\* informational events
OnInfo ==
  /\ (Is("server_end") \/ Is("no_server_end") \/ Is("scenario_end"))
  /\ (Is("server_end") => ~up)               \* the task only ends after shutdown / handle drop
  /\ (Is("scenario_end") => exp = <<>>)
  /\ UNCHANGED <<sc, up, tracker, nextId, conn, pend, evp, db, exp, cur>> /\ Step

\* (a connection may arrive while a request is outstanding on ANOTHER connection: accepting is the server task's business)
OnConnecting ==
  /\ Is("connecting") /\ (exp = <<>> \/ cur # Ev.c)
  /\ pend' = Ev.c
  /\ conn' = [conn EXCEPT ![Ev.c] = [src |-> Ev.src, id |-> -1, st |-> "connecting", role |-> "", silent |-> Ev.silent]]
  /\ UNCHANGED <<sc, up, tracker, nextId, evp, db, exp, cur>> /\ Step

\* C16: the decision is exactly Matches(filter, address as accept() reports it)
OnFilter ==
  /\ Is("filter") /\ up /\ pend >= 0 /\ conn[pend].st = "connecting"
  /\ Ev.addr = conn[pend].src
  /\ Ev.matches = Matches(sc.filter, Ev.addr)
  /\ conn' = [conn EXCEPT ![pend].st = IF Ev.matches THEN "accepted" ELSE "rejected"]
  /\ UNCHANGED <<sc, up, tracker, nextId, pend, evp, db, exp, cur>> /\ Step

\* C15: never more than the limit; at the limit the OLDEST session makes room
OnTrack ==
  /\ Is("track") /\ up /\ pend >= 0 /\ conn[pend].st = "accepted"
  \* the property does not say how session ids are chosen: any id is accepted that cannot be confused with a session
  \* whose close message may still arrive (a tracked one, or an evicted one that has not reported its end yet)
  /\ Ev.id \notin ({tracker[i] : i \in DOMAIN tracker} \cup evp)
  /\ LET full == Len(tracker) >= M
         ev == IF full THEN Head(tracker) ELSE -1
         t2 == (IF full THEN Tail(tracker) ELSE tracker) \o <<Ev.id>>
     IN /\ Ev.evicted = ev
        /\ Ev.size = Len(t2) /\ Len(t2) <= M
        /\ tracker' = t2
        /\ evp' = IF full THEN evp \cup {ev} ELSE evp
        /\ conn' = [c \in 0..63 |->
                      IF c = pend THEN [conn[c] EXCEPT !.id = Ev.id, !.st = IF sc.variant = "tcp" THEN "served" ELSE "handshake"]
                      \* (a session whose peer does not read its replies is parked in a write: it takes notice of its
                      \* eviction only when that write completes, and works through its backlog until then)
                      ELSE IF full /\ conn[c].id = ev
                           THEN [conn[c] EXCEPT !.st = IF conn[c].st = "flooding" THEN "flooding" ELSE "evicted"]
                      ELSE conn[c]]
  /\ nextId' = nextId + 1
  /\ UNCHANGED <<sc, up, pend, db, exp, cur>> /\ Step

\* a listener that is up accepts; after the server ended nothing listens any more
OnConnected ==
  /\ Is("connected")
  /\ Ev.result = (IF up THEN "ok" ELSE "refused")
  /\ UNCHANGED <<sc, up, tracker, nextId, conn, pend, evp, db, exp, cur>> /\ Step

\* a session leaves the tracker only for a reason: it was evicted, its peer closed or sent garbage,
\* its handshake failed -- never because of what happens on another connection (isolation)
OnUntrack ==
  /\ Is("untrack")
  /\ \/ /\ Ev.id \in evp
        /\ evp' = evp \ {Ev.id} /\ Ev.size = Len(tracker) /\ UNCHANGED <<tracker, conn>>
     \/ /\ Ev.id \in SeqToSet(tracker) /\ HasConn(Ev.id)
        /\ conn[ConnOf(Ev.id)].st \in {"closed", "garbaged", "tlsfailed", "handshake"}
        /\ tracker' = SelectSeq(tracker, LAMBDA x : x # Ev.id)
        /\ Ev.size = Len(tracker')
        \* a handshake may fail on the server side before the peer has reported it
        /\ conn' = [conn EXCEPT ![ConnOf(Ev.id)].st = IF conn[ConnOf(Ev.id)].st = "handshake" THEN "hs_ended" ELSE "gone"]
        /\ UNCHANGED evp
  /\ UNCHANGED <<sc, up, nextId, pend, db, exp, cur>> /\ Step

\* C09: admission of the TLS peer
CertRole(c) == CertInfo(c).role
OnTls ==
  /\ Is("tls") /\ conn[Ev.c].st \in {"handshake", "hs_ended"}
  /\ LET peer == [cert |-> Ev.cert,
                  versions |-> {IF Ev.versions[i] = "1.3" THEN 13 ELSE 12 : i \in 1..Len(Ev.versions)}]
         a == Admit([mode |-> sc.mode, min |-> sc.min, authz |-> sc.authz, trust |-> sc.trust, name |-> ""], peer)
     IN IF a.ok
        THEN /\ conn[Ev.c].st = "handshake"
             /\ Ev.outcome = "established"
             /\ Ev.version = (IF a.version = 13 THEN "1.3" ELSE "1.2")
             /\ conn' = [conn EXCEPT ![Ev.c].st = "served", ![Ev.c].role = a.role]
        ELSE /\ Ev.outcome = "rejected"
             /\ conn' = [conn EXCEPT ![Ev.c].st = "tlsfailed"]
  /\ UNCHANGED <<sc, up, tracker, nextId, pend, evp, db, exp, cur>> /\ Step

\* a request on a served connection: the reply is the reference server's, computed on the SHARED database
ProbeReplyCabi(fr) == <<[e |-> "tx", bytes |-> MbapFrame(fr.tx, fr.unit, <<3, 2, 0, 7>>)]>>
OnReq ==
  /\ Is("req") /\ exp = <<>> /\ conn[Ev.c].st = "served" /\ up
  /\ LET h == MbapHead(Ev.bytes) IN
       /\ h.st = "frame"
       /\ IF sc.api = "cabi"
          THEN exp' = ProbeReplyCabi(h) /\ UNCHANGED db
          ELSE LET r == HandleFrame(RefCfg, db, h) IN exp' = r.ev /\ db' = r.db
  /\ cur' = Ev.c
  /\ UNCHANGED <<sc, up, tracker, nextId, conn, pend, evp>> /\ Step

\* the recorder compresses consecutive point reads into one event; an event of another thread may cut the
\* series in two, so a logged series may be a proper prefix of the prescribed one (the rest must follow)
OnReads ==
  /\ Is("reads") /\ exp # <<>> /\ Head(exp).e = "reads"
  /\ LET x == Head(exp) IN
       /\ x.u = Ev.u /\ x.t = Ev.t /\ x.s = Ev.s /\ Ev.n >= 1 /\ Ev.n <= x.n
       /\ Ev.outs = SubSeq(x.outs, 1, Ev.n)
       /\ exp' = IF Ev.n = x.n THEN Tail(exp)
                 ELSE <<[x EXCEPT !.s = x.s + Ev.n, !.n = x.n - Ev.n, !.outs = SubSeq(x.outs, Ev.n + 1, x.n)]>> \o Tail(exp)
  /\ UNCHANGED <<sc, up, tracker, nextId, conn, pend, evp, db, cur>> /\ Step
OnWrite ==
  /\ Is("write") /\ exp # <<>> /\ Head(exp).e = "write"
  /\ LET x == Head(exp) IN x.u = Ev.u /\ x.m = Ev.m /\ x.s = Ev.s /\ x.vals = Ev.vals /\ x.out = Ev.out /\ Ev.contig
  /\ exp' = Tail(exp) /\ UNCHANGED <<sc, up, tracker, nextId, conn, pend, evp, db, cur>> /\ Step
\* C09 / C08: the role is exactly the single role extension of the client certificate
OnAuth ==
  /\ Is("auth") /\ exp # <<>> /\ Head(exp).e = "auth"
  /\ LET x == Head(exp) IN x.m = Ev.m /\ x.u = Ev.u /\ x.s = Ev.s /\ x.c = Ev.c /\ x.d = Ev.d
  /\ Ev.role = conn[cur].role
  /\ exp' = Tail(exp) /\ UNCHANGED <<sc, up, tracker, nextId, conn, pend, evp, db, cur>> /\ Step

OnRsp ==
  /\ Is("rsp") /\ Ev.c = cur
  /\ IF exp # <<>> /\ Head(exp).e = "tx"
     THEN Ev.outcome = "reply" /\ Ev.bytes = Head(exp).bytes /\ exp' = Tail(exp)
     ELSE exp = <<>> /\ Ev.outcome = "silent" /\ UNCHANGED exp
  /\ cur' = -1
  /\ UNCHANGED <<sc, up, tracker, nextId, conn, pend, evp, db>> /\ Step

OnClose ==
  /\ Is("close") /\ exp = <<>>
  /\ conn' = [conn EXCEPT ![Ev.c].st = IF conn[Ev.c].st \in {"served", "handshake"} THEN "closed" ELSE conn[Ev.c].st]
  /\ UNCHANGED <<sc, up, tracker, nextId, pend, evp, db, exp, cur>> /\ Step

\* bytes that are a malformed MBAP header: that session ends (C05), the others are not disturbed
OnSend ==
  /\ Is("send") /\ exp = <<>> /\ conn[Ev.c].st = "served"
  /\ MbapHead(Ev.bytes).st = "err"
  /\ conn' = [conn EXCEPT ![Ev.c].st = "garbaged"]
  /\ UNCHANGED <<sc, up, tracker, nextId, pend, evp, db, exp, cur>> /\ Step

\* a peer that sends requests and never reads the replies: its session blocks in the write; this must not
\* disturb the server task or any other session (the reads it causes are not compared: st = "flooding")
OnFlood ==
  /\ Is("flood") /\ conn[Ev.c].st = "served"
  /\ conn' = [conn EXCEPT ![Ev.c].st = "flooding"]
  /\ UNCHANGED <<sc, up, tracker, nextId, pend, evp, db, exp, cur>> /\ Step
\* (the flooded session keeps executing its backlog concurrently with everything else, so its reads may
\* appear anywhere; they are reads of the flooded block only)
\* (`reads_rep`: the harness counts a read series that is identical to the one logged just before it, with nothing in
\* between, instead of logging it again -- only a flooded session produces such runs)
OnFloodReads ==
  /\ \/ Is("flood_done")
     \/ (Is("reads") \/ Is("reads_rep")) /\ Ev.t = 2 /\ Ev.s + Ev.n <= 125
  /\ (\E c \in 0..63 : conn[c].st = "flooding")
  /\ UNCHANGED <<sc, up, tracker, nextId, conn, pend, evp, db, exp, cur>> /\ Step

OnPartial ==
  /\ Is("partial") /\ MbapHead(Ev.bytes).st = "more" /\ conn[Ev.c].st = "served"
  /\ UNCHANGED <<sc, up, tracker, nextId, conn, pend, evp, db, exp, cur>> /\ Step

\* what a peer sees: closed without a single byte when filtered out, evicted, after garbage, after the end
OnPeerView ==
  /\ Is("peer_view")
  /\ LET s0 == conn[Ev.c].st IN
       IF s0 = "flooding" THEN Ev.outcome \in {"data", "eof"}      \* its backlog of replies, then the end
       ELSE IF s0 \in {"rejected", "evicted", "garbaged", "gone", "tlsfailed", "hs_ended"} \/ ~up
       THEN Ev.outcome = "eof" /\ (s0 = "rejected" => Ev.n = 0)
       ELSE Ev.outcome = "open"
  /\ UNCHANGED <<sc, up, tracker, nextId, conn, pend, evp, db, exp, cur>> /\ Step

OnCmd ==
  /\ Is("cmd") /\ (exp = <<>> \/ Ev.kind = "decode")     \* C20: a level change may arrive while a request is outstanding
  /\ up' = IF Ev.kind \in {"shutdown", "drop", "teardown"} THEN FALSE ELSE up
  /\ UNCHANGED <<sc, tracker, nextId, conn, pend, evp, db, exp, cur>> /\ Step

\* C16: wildcard strings that are not four fields of '*' or 0..255 are rejected, by both APIs
OnWildCfg == Is("wild_cfg") /\ exp = <<>> /\ UNCHANGED <<sc, up, tracker, nextId, conn, pend, evp, db, exp, cur>> /\ Step
OnWild ==
  /\ Is("wild")
  /\ LET k == WildcardClass(Ev.fields) IN
       /\ (k = "ok" => (Ev.rust /\ Ev.cabi))
       /\ (k = "reject" => (~Ev.rust /\ ~Ev.cabi))
  /\ UNCHANGED <<sc, up, tracker, nextId, conn, pend, evp, db, exp, cur>> /\ Step

(***************************************************************************)
(* C09 client role: the rodbus TLS client against a rustls server of the   *)
(* harness that presents a fixture certificate and pinned versions.  The   *)
(* client reaches Connected iff Admit(..) says so (expected server name    *)
(* included), at the highest common version, and only then Modbus flows.   *)
(* A peer that accepts TCP and never starts the handshake must not wedge   *)
(* the task (C07 / C10 / C13): requests still fail, shutdown is honoured.  *)
(***************************************************************************)
OnTlscCfg ==
  /\ Is("tlsc_cfg") /\ exp = <<>>
  /\ sc' = [NoSc EXCEPT !.variant = "tls_client", !.mode = Ev.mode, !.min = IF Ev.min_tls = "1.3" THEN 13 ELSE 12,
                        !.trust = Ev.trust,
                        \* through the C ABI the expected name is dns_name, and verification of the name is
                        \* switched off only by allow_server_name_wildcard together with the name "*"
                        !.policy = IF "dns" \in DOMAIN Ev THEN (IF Ev.wildcard /\ Ev.dns = "*" THEN "" ELSE Ev.dns) ELSE Ev.name]
  /\ UNCHANGED <<up, tracker, nextId, conn, pend, evp, db, exp, cur>> /\ Step
OnCState == Is("cstate") /\ UNCHANGED <<sc, up, tracker, nextId, conn, pend, evp, db, exp, cur>> /\ Step
OnTlsc ==
  /\ Is("tlsc") /\ sc.variant = "tls_client"
  /\ LET peer == [cert |-> Ev.cert, versions |-> {IF Ev.versions[i] = "1.3" THEN 13 ELSE 12 : i \in 1..Len(Ev.versions)}]
         a == Admit([mode |-> sc.mode, min |-> sc.min, authz |-> FALSE, trust |-> sc.trust, name |-> sc.policy], peer)
     IN IF a.ok
        THEN /\ Ev.outcome = "connected" /\ Ev.version = (IF a.version = 13 THEN "1.3" ELSE "1.2")
             /\ Ev.modbus = "ok9"
        ELSE Ev.outcome = "failed" /\ Ev.modbus = "none"
  /\ UNCHANGED <<sc, up, tracker, nextId, conn, pend, evp, db, exp, cur>> /\ Step
OnTlscStall ==
  /\ Is("tlsc_stall")
  /\ Ev.request_completed /\ Ev.request_result # "Ok" /\ Ev.task_ended_after_shutdown
  \* no connection exists while the handshake is stalled: the listener must not have been told Connected
  /\ Ev.state_during_stall = "Connecting"
  /\ UNCHANGED <<sc, up, tracker, nextId, conn, pend, evp, db, exp, cur>> /\ Step

(***************************************************************************)
(* C13 black-box: the plain TCP channel task on real sockets (no connector *)
(* hook).  The task is held inside the listener notification of one state  *)
(* while a command is handed in; the listener path must stay legal (the    *)
(* relation of Client_MC!LegalNext), shutdown / dropping the last handle   *)
(* must end the task with Shutdown exactly once and last, a disable must   *)
(* leave it Disabled and alive.                                            *)
(***************************************************************************)
LcLegal(prev, nxt) ==
  CASE nxt = "Disabled" -> prev \in {"Connected", "Connecting", "WaitAfterFailedConnect", "WaitAfterDisconnect"}
    [] nxt = "Connecting" -> prev \in {"Disabled", "WaitAfterFailedConnect", "WaitAfterDisconnect", "Connected"}
    [] nxt = "Connected" -> prev = "Connecting"
    [] nxt = "WaitAfterFailedConnect" -> prev = "Connecting"
    [] nxt = "WaitAfterDisconnect" -> prev = "Connected"
    [] nxt = "Shutdown" -> prev # "Shutdown"
    [] OTHER -> FALSE
OnTcpcCfg == Is("tcpc_cfg") /\ exp = <<>> /\ UNCHANGED <<sc, up, tracker, nextId, conn, pend, evp, db, exp, cur>> /\ Step
OnTcpcLc ==
  /\ Is("tcpc_lc")
  /\ Ev.gate_reached
  /\ LET s == Ev.states
         n == Len(s)
     IN /\ n >= 1 /\ s[1] = "Disabled"
        /\ \A i \in 2..n : LcLegal(s[i - 1], s[i])
        /\ IF Ev.cmd \in {"shutdown", "drop"}
           THEN Ev.task_ended /\ s[n] = "Shutdown"
           ELSE ~Ev.task_ended /\ s[n] = "Disabled" /\ n > Ev.gate_index - 1
  /\ UNCHANGED <<sc, up, tracker, nextId, conn, pend, evp, db, exp, cur>> /\ Step

TraceNext == OnTcpcCfg \/ OnTcpcLc \/ OnTlscCfg \/ OnCState \/ OnTlsc \/ OnTlscStall \/ OnWildCfg \/ OnWild \/ OnCfg \/ OnListening \/ OnInfo \/ OnConnecting \/ OnFilter \/ OnTrack \/ OnConnected \/ OnUntrack
             \/ OnTls \/ OnFlood \/ OnFloodReads \/ OnReq \/ OnReads \/ OnWrite \/ OnAuth \/ OnRsp \/ OnClose \/ OnSend \/ OnPartial
             \/ OnPeerView \/ OnCmd

TraceSpec == TraceInit /\ [][TraceNext]_vars

\* C15 as invariants on every state of the matched behaviour
Bounded == Len(tracker) <= M
NoDuplicates == \A i, j \in 1..Len(tracker) : i # j => tracker[i] # tracker[j]
AgeOrdered == \A i, j \in 1..Len(tracker) : i < j => tracker[i] < tracker[j]

Furthest ==
  \/ TLCGet(1) >= l
  \/ /\ TLCSet(1, l)
     /\ TLCSet(2, [up |-> up, tracker |-> tracker, pend |-> pend, evp |-> evp,
                   exp |-> IF exp = <<>> THEN "none" ELSE ToJson(Head(exp)),
                   conns |-> [c \in {x \in 0..63 : conn[x].st # "none"} |-> conn[c].st]])

TraceAccepted ==
  IF TLCGet(1) = Len(Rec) + 1 THEN TRUE
  ELSE /\ PrintT(<<"REJECT", TLCGet(1), ToJson(TLCGet(2))>>)
       /\ FALSE

ASSUME TLCSet(1, 0) /\ TLCSet(2, "none")
=============================================================================
