SPECIFICATION Spec
CONSTANTS
  MaxLen = 4
  MaxFrames = 4
  ShiftRule = "end"
INVARIANTS FramesArePrefix Complete ErrorIffMalformed NoMissedError NoZeroSpaceRead Bounds
CHECK_DEADLOCK FALSE
