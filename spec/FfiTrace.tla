------------------------------ MODULE FfiTrace ------------------------------
(***************************************************************************)
(* The C ABI (C18, C19): reference and trace validation in one module.     *)
(*                                                                         *)
(* C18  FfiBoundary part: the conversion tables between the Rust API and   *)
(*      the C ABI as explicit functions (WriteResult -> exception byte,    *)
(*      RequestError / exception code -> request_error value, ParamError   *)
(*      for argument errors), the wire encoding (ModbusPdu!EncodeRequest), *)
(*      the decoding (ModbusPdu!DecodeResponse) and the completion         *)
(*      protocol: every call that takes a completion callback invokes it   *)
(*      exactly once, whether or not the call reports an error.            *)
(* C19  FfiDatabase part: one map per point type with add / update /       *)
(*      delete / get, client reads answered from it (exception 02 for an   *)
(*      absent point); transactions are atomic (db_stress events: no read  *)
(*      may be torn; design-level model in FfiDatabase_MC.tla).            *)
(***************************************************************************)
EXTENDS ModbusPdu, Mbap, Json, IOUtils, TLC, SequencesExt, Rtu

Rec == ndJsonDeserialize(IOEnv.TRACE)

VARIABLES l, kind, cur, db
vars == <<l, kind, cur, db>>

NoCur == [r |-> -1]
TraceInit == l = 1 /\ kind = "none" /\ cur = NoCur /\ db = [k \in {} |-> 0]

Ev == Rec[l]
Is(name) == l <= Len(Rec) /\ Ev.e = name
Step == l' = l + 1

(***************************************************************************)
(* Conversion tables                                                       *)
(***************************************************************************)
\* request_error values of the C ABI
ErrShutdown == 1
ErrNoConnection == 2
ErrResponseTimeout == 3
ErrBadRequest == 4
ErrBadResponse == 5
ErrIoError == 6
ErrBadFraming == 7
ErrInternal == 8
\* Modbus exception code -> request_error ("same-named counterpart")
ExcToFfi(code) ==
  CASE code = 1 -> 10 [] code = 2 -> 11 [] code = 3 -> 12 [] code = 4 -> 13 [] code = 5 -> 14
    [] code = 6 -> 15 [] code = 8 -> 16 [] code = 10 -> 17 [] code = 11 -> 18 [] OTHER -> 19
\* param_error values
PeOk == 0
PeNull == 2
PeInvalidRange == 8
PeInvalidRequest == 9

\* what the application's write callback returns for a given index (the harness callbacks implement this)
\* (30000 .. 30255: `success = true` with the other members of the struct set to something -- a named exception, a raw
\* code, a value that is no enumerator at all, as in a zero-initialised struct: success is success)
WantedOk(idx) == idx \in {0, 100} \/ (idx >= 30000 /\ idx <= 30255)
WantedCode(idx) == idx % 256

OnCfg ==
  /\ Is("ffi_cfg") /\ cur = NoCur
  /\ kind' = Ev.kind /\ cur' = NoCur /\ db' = [k \in {} |-> 0] /\ Step

OnEndScenario == Is("ffi_end_scenario") /\ cur = NoCur /\ UNCHANGED <<kind, cur, db>> /\ Step

(***************************************************************************)
(* write_results: what the client receives is what the callback returned   *)
(***************************************************************************)
OnWr ==
  /\ Is("wr") /\ kind = "write_results"
  /\ LET p == ParseRequest(Ev.req) IN
       /\ p.tag = "ok" /\ p.fc \in {5, 6, 15, 16}
       /\ Ev.outcome = "reply"
       /\ Ev.rsp = IF WantedOk(p.start) THEN WriteReplyPdu(p) ELSE ExceptionPdu(p.fc, WantedCode(p.start))
  /\ UNCHANGED <<kind, cur, db>> /\ Step

(***************************************************************************)
(* client_ops                                                              *)
(***************************************************************************)
OnCreate == Is("ffi_create") /\ Ev.ret = 0 /\ UNCHANGED <<kind, cur, db>> /\ Step
\* connection states are reported as their same-named values (0..5); legality of the path is C13's
OnState == Is("ffi_state") /\ Ev.state \in 0..5 /\ UNCHANGED <<kind, cur, db>> /\ Step

OnCallOther ==
  /\ Is("ffi_call") /\ Ev.op \in {"enable", "disable", "destroy"} /\ Ev.ret = 0 /\ cur = NoCur
  /\ UNCHANGED <<kind, cur, db>> /\ Step

MkReq(e) ==
  LET c == IF e.fc \in {15, 16} THEN Len(e.values) ELSE IF e.fc \in {5, 6} THEN 1 ELSE e.count IN
  [fc |-> e.fc, unit |-> e.unit, start |-> e.start, count |-> c, values |-> e.values]

RangeOk(q) == q.count >= 1 /\ q.start + q.count <= 65536

\* the return code of the call itself
ExpectedRet(e) ==
  LET q == MkReq(e) IN
  IF e.null THEN PeNull
  ELSE IF q.fc \in ReadFcs /\ (~RangeOk(q) \/ q.count > ReadLimit(q.fc)) THEN PeInvalidRange
  ELSE IF q.fc \in {15, 16} /\ ~RangeOk(q) THEN PeInvalidRequest
  ELSE PeOk

OnReq ==
  /\ Is("ffi_req") /\ cur = NoCur /\ kind = "client_ops"
  /\ cur' = [r |-> Ev.r, ev |-> Ev, q |-> MkReq(Ev), ret |-> ExpectedRet(Ev), called |-> FALSE, wired |-> FALSE, cbs |-> 0]
  /\ UNCHANGED <<kind, db>> /\ Step

OnCall ==
  /\ Is("ffi_call") /\ Ev.op = "request" /\ cur # NoCur /\ Ev.r = cur.r /\ ~cur.called
  /\ Ev.ret = cur.ret
  /\ cur' = [cur EXCEPT !.called = TRUE]
  /\ UNCHANGED <<kind, db>> /\ Step

Transmits == cur.ret = PeOk /\ cur.ev.connected /\ ClientRequestValid(cur.q)

\* the frame on the wire is the protocol encoding with the parameters unchanged (unit id, range, values)
OnWire ==
  /\ Is("ffi_wire") /\ cur # NoCur /\ Ev.r = cur.r /\ cur.called /\ ~cur.wired
  /\ IF Transmits
     THEN /\ Len(Ev.bytes) >= 8
          /\ Ev.bytes = MbapFrame(Ev.bytes[1] * 256 + Ev.bytes[2], cur.q.unit, EncodeRequest(cur.q))
     ELSE Ev.bytes = <<>>
  /\ cur' = [cur EXCEPT !.wired = TRUE]
  /\ UNCHANGED <<kind, db>> /\ Step

\* the one completion
ExpectedCb(e) ==
  IF cur.ret # PeOk THEN [which |-> "failure", errs |-> 1..19, values |-> <<>>]     \* fires once; the value is not prescribed
  ELSE IF ~cur.ev.connected THEN [which |-> "failure", errs |-> {ErrNoConnection}, values |-> <<>>]
  ELSE IF ~ClientRequestValid(cur.q) THEN [which |-> "failure", errs |-> {ErrBadRequest, ErrInternal}, values |-> <<>>]
  ELSE IF cur.ev.peer = "silence" THEN [which |-> "failure", errs |-> {ErrResponseTimeout}, values |-> <<>>]
  ELSE IF cur.ev.peer \in {"close", "reset"} THEN [which |-> "failure", errs |-> {ErrIoError}, values |-> <<>>]   \* every kind of I/O error
  ELSE IF cur.ev.peer = "badframe" THEN [which |-> "failure", errs |-> {ErrBadFraming}, values |-> <<>>]
  ELSE LET d == DecodeResponse(cur.q, cur.ev.reply) IN
       CASE d.class = "ok" -> [which |-> "complete", errs |-> {0}, values |-> d.values]
         [] d.class = "exc" -> [which |-> "failure", errs |-> {ExcToFfi(d.code)}, values |-> <<>>]
         [] OTHER -> [which |-> "failure", errs |-> {ErrBadResponse, ErrBadRequest, ErrInternal}, values |-> <<>>]

OnCb ==
  \* (the callback may run inside the call itself, i.e. before the call has returned)
  /\ Is("ffi_cb") /\ cur # NoCur /\ Ev.r = cur.r
  /\ Ev.n = 1 /\ cur.cbs = 0                                    \* exactly once
  /\ LET x == ExpectedCb(Ev)
           \* (open in C04: a read reply of the right length whose byte-count field disagrees may also be refused)
           open == /\ cur.ret = PeOk /\ cur.ev.connected /\ ClientRequestValid(cur.q)
                   /\ cur.ev.peer \notin {"silence", "close", "reset", "badframe"}
                   /\ ByteCountFieldDisagrees(cur.q, cur.ev.reply)
       IN
       /\ \/ Ev.which = x.which /\ Ev.error \in x.errs
          \/ open /\ Ev.which = "failure" /\ Ev.error \in {ErrBadResponse, ErrBadRequest, ErrInternal}
       /\ (Ev.which = "complete" /\ cur.q.fc \in ReadFcs) =>
              (Ev.values = x.values /\ Ev.contig /\ Ev.idx0 = cur.q.start)
       \* the timeout passes through unchanged: never earlier than asked for
       /\ (cur.ret = PeOk /\ cur.ev.connected /\ cur.ev.peer = "silence" /\ ClientRequestValid(cur.q)) => Ev.ms >= cur.ev.timeout
  /\ cur' = [cur EXCEPT !.cbs = 1]
  /\ UNCHANGED <<kind, db>> /\ Step

OnReqEnd ==
  /\ Is("ffi_end") /\ cur # NoCur /\ Ev.r = cur.r /\ cur.called
  /\ Ev.completed /\ Ev.completions = 1 /\ cur.cbs = 1 /\ Ev.destroys = 1
  /\ (Transmits => cur.wired)
  /\ cur' = NoCur
  /\ UNCHANGED <<kind, db>> /\ Step

(***************************************************************************)
(* database: one map per point type (0 coils, 1 discrete, 2 holding, 3 in) *)
(***************************************************************************)
Has(t, i) == <<t, i>> \in DOMAIN db
Norm(t, v) == IF t \in {0, 1} THEN (IF v # 0 THEN 1 ELSE 0) ELSE v % 65536
Put(t, i, v) == [k \in (DOMAIN db) \cup {<<t, i>>} |-> IF k = <<t, i>> THEN Norm(t, v) ELSE db[k]]
Del(t, i) == [k \in (DOMAIN db) \ {<<t, i>>} |-> db[k]]

OnTxn == Is("db_txn") /\ Ev.unit = 1 /\ UNCHANGED <<kind, cur, db>> /\ Step
OnTxnEnd == Is("db_txn_end") /\ Ev.ret = 0 /\ UNCHANGED <<kind, cur, db>> /\ Step

OnDbOp ==
  /\ Is("db_op")
  /\ CASE Ev.op = "add" -> /\ Ev.ret = ~Has(Ev.t, Ev.idx)
                           /\ db' = IF Has(Ev.t, Ev.idx) THEN db ELSE Put(Ev.t, Ev.idx, Ev.value)
       [] Ev.op = "update" -> /\ Ev.ret = Has(Ev.t, Ev.idx)
                              /\ db' = IF Has(Ev.t, Ev.idx) THEN Put(Ev.t, Ev.idx, Ev.value) ELSE db
       [] Ev.op = "delete" -> /\ Ev.ret = Has(Ev.t, Ev.idx)
                              /\ db' = IF Has(Ev.t, Ev.idx) THEN Del(Ev.t, Ev.idx) ELSE db
       [] OTHER -> /\ Ev.ret = Has(Ev.t, Ev.idx)
                   /\ Ev.got = (IF Has(Ev.t, Ev.idx) THEN db[<<Ev.t, Ev.idx>>] ELSE -1)
                   /\ db' = db
  /\ UNCHANGED <<kind, cur>> /\ Step

TypeOf(fc) == CASE fc = 1 -> 0 [] fc = 2 -> 1 [] fc = 3 -> 2 [] fc = 4 -> 3

OnDbRead ==
  /\ Is("db_read") /\ Ev.outcome = "reply" /\ Ev.unit = 1
  /\ LET p == ParseRequest(Ev.req) IN
       CASE p.tag = "unknownfc" -> Ev.rsp = ExceptionPdu(p.fc, 1)
         [] p.tag = "invalid" -> Ev.rsp = ExceptionPdu(p.fc, 3)
         [] p.tag = "ok" /\ p.fc \in ReadFcs ->
              LET t == TypeOf(p.fc)
                  present == \A a \in p.start..(p.start + p.count - 1) : Has(t, a)
              IN IF present
                 THEN Ev.rsp = ReadReplyPdu(p.fc, [i \in 1..p.count |-> db[<<t, p.start + i - 1>>]])
                 ELSE Ev.rsp = ExceptionPdu(p.fc, 2)       \* a read touching an absent point
         [] OTHER -> Ev.rsp = ExceptionPdu(p.fc, 1)         \* no write handler installed
  /\ UNCHANGED <<kind, cur, db>> /\ Step

\* C19: no client request ever observes part of a transaction
OnStress ==
  /\ Is("db_stress") /\ Ev.torn = 0 /\ Ev.reads >= 1 /\ Ev.transactions >= 1
  /\ UNCHANGED <<kind, cur, db>> /\ Step

(***************************************************************************)
(* queue depth (configuration passes through unchanged): with             *)
(* max_queued_requests = n and a peer that never answers, the request in   *)
(* flight plus n queued ones are accepted, every further one is refused    *)
(* with TooManyRequests; each completion still fires exactly once.         *)
(***************************************************************************)
PeTooMany == 20
OnQCall ==
  /\ Is("q_call") /\ kind = "client_queue"
  /\ Ev.ret = (IF Ev.k <= Ev.n THEN PeOk ELSE PeTooMany)      \* k = 0 is in flight, k = 1..n are queued
  /\ UNCHANGED <<kind, cur, db>> /\ Step
OnQCb ==
  /\ Is("ffi_cb") /\ kind = "client_queue" /\ Ev.n = 1 /\ Ev.which = "failure"
  /\ UNCHANGED <<kind, cur, db>> /\ Step
OnQEnd ==
  /\ Is("q_end") /\ Ev.all_completed
  /\ \A i \in 1..Len(Ev.completions) : Ev.completions[i] = 1 /\ Ev.destroys[i] = 1
  /\ UNCHANGED <<kind, cur, db>> /\ Step

(***************************************************************************)
(* retry strategy (configuration passes through unchanged): a channel      *)
(* created with {min_delay, max_delay} towards a port that refuses         *)
(* connections attempts again after min, 2 min, 4 min ... capped at max.   *)
(* Real time: never earlier than prescribed, and not later than the        *)
(* prescribed delay plus scheduling slack (the refused connect itself).    *)
(***************************************************************************)
Slack == 450
OnRetry ==
  /\ Is("ffi_retry") /\ kind = "client_retry"
  /\ Ev.attempts >= Ev.wanted
  /\ \A k \in 1..Len(Ev.gaps) :
        LET want == Min2(Ev.min * Pow2(k - 1), Ev.max) IN Ev.gaps[k] >= want /\ Ev.gaps[k] <= want + Slack
  /\ UNCHANGED <<kind, cur, db>> /\ Step

(***************************************************************************)
(* decode levels (each is reported as its same-named counterpart): one     *)
(* identical transaction through a C-ABI channel and through a Rust        *)
(* channel at the same-named level -- given at creation or set at run time *)
(* -- logs the same protocol-decoding lines; something is logged exactly   *)
(* when some component of the level is not Nothing.                        *)
(***************************************************************************)
OnDecode ==
  /\ Is("ffi_decode") /\ kind = "decode_levels"
  /\ Ev.cabi = Ev.rust
  /\ (Len(Ev.rust) > 0) <=> (Ev.level[1] + Ev.level[2] + Ev.level[3] > 0)
  /\ UNCHANGED <<kind, cur, db>> /\ Step

(***************************************************************************)
(* RTU channel / RTU server created through the C ABI (the serial port is  *)
(* the verif-hooks port opener): path and every serial setting reach the   *)
(* task as their same-named Rust values on every attempt to open the port, *)
(* PortState is reported by name (Disabled, Wait while the port is         *)
(* missing, Open, Shutdown), and the traffic is RTU framed.                *)
(***************************************************************************)
SameSettings(c, s) ==
  /\ s.path = c.path /\ s.baud = c.baud /\ s.data_bits = c.data_bits /\ s.flow = c.flow
  /\ s.parity = c.parity /\ s.stop = c.stop
OnRtu ==
  /\ Is("ffi_rtu") /\ kind = "rtu_cabi"
  /\ Ev.create_rc = PeOk
  /\ Len(Ev.seen) >= 1 /\ \A i \in 1..Len(Ev.seen) : SameSettings(Ev.cfg, Ev.seen[i])
  /\ IF Ev.role = "client"
     THEN /\ Len(Ev.seen) >= 3                          \* two failed attempts while the port was missing, then the open
          /\ Ev.states = <<"Disabled", "Wait", "Open", "Shutdown">>
          /\ Ev.tx = RtuFrame(Ev.cfg.unit, <<3, 0, 7, 0, 2>>)
          /\ Ev.result = "ok:4660@7,43981@8"
     ELSE Ev.tx = RtuFrame(Ev.cfg.unit, <<3, 4, 0, 0, 0, 0>>)
  /\ UNCHANGED <<kind, cur, db>> /\ Step

\* the database is ONE map per type: of two transactions that add the same absent index at the same instant exactly one
\* succeeds, and what is stored is what that one added (a transaction never works on a private copy)
OnAddRace ==
  /\ Is("db_add_race") /\ kind = "db_add_race"
  /\ Ev.both_added = 0 /\ Ev.none_added = 0 /\ Ev.stored_is_not_the_winners = 0 /\ Ev.rounds >= 1
  /\ UNCHANGED <<kind, cur, db>> /\ Step

TraceNext == OnAddRace \/ OnRtu \/ OnDecode \/ OnRetry \/ OnQCall \/ OnQCb \/ OnQEnd \/ OnCfg \/ OnEndScenario \/ OnWr \/ OnCreate \/ OnState \/ OnCallOther \/ OnReq \/ OnCall \/ OnWire \/ OnCb
             \/ OnReqEnd \/ OnTxn \/ OnTxnEnd \/ OnDbOp \/ OnDbRead \/ OnStress

TraceSpec == TraceInit /\ [][TraceNext]_vars

Furthest ==
  \/ TLCGet(1) >= l
  \/ /\ TLCSet(1, l)
     /\ TLCSet(2, [kind |-> kind,
                   cur |-> IF cur = NoCur THEN "none"
                           ELSE ToJson([r |-> cur.r, ret |-> cur.ret, called |-> cur.called, wired |-> cur.wired, cbs |-> cur.cbs,
                                        valid |-> ClientRequestValid(cur.q), connected |-> cur.ev.connected]),
                   points |-> Cardinality(DOMAIN db)])

TraceAccepted ==
  IF TLCGet(1) = Len(Rec) + 1 THEN TRUE
  ELSE /\ PrintT(<<"REJECT", TLCGet(1), ToJson(TLCGet(2))>>)
       /\ FALSE

ASSUME TLCSet(1, 0) /\ TLCSet(2, "none")
=============================================================================
