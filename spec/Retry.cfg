SPECIFICATION Spec
CONSTRAINT Furthest
INVARIANT ClosedForm
POSTCONDITION TraceAccepted
CHECK_DEADLOCK FALSE
