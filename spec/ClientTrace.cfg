SPECIFICATION TraceSpec
CONSTANTS
  MaxReadBits = 2000
  MaxReadRegs = 125
  MaxWriteCoils = 1968
  MaxWriteRegs = 123
  AddrSpace = 65536
  TxMod = 65536
  Bug = "none"
CONSTRAINT Furthest
INVARIANT OneOutstanding
INVARIANT TxBounded
INVARIANT FailFast
POSTCONDITION TraceAccepted
CHECK_DEADLOCK FALSE
