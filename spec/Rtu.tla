-------------------------------- MODULE Rtu --------------------------------
(***************************************************************************)
(* RTU framing (serial), C06: CRC-16/MODBUS and the length derivation from *)
(* function code and byte count.  Defined on the byte stream only.         *)
(***************************************************************************)
EXTENDS Naturals, Sequences, Bitwise, SequencesExt

RtuMaxFrame == 256
RtuMaxPdu == 253

(* one table entry: reflected polynomial 0xA001 *)
RECURSIVE CrcShift(_, _)
CrcShift(v, k) == IF k = 0 THEN v
                  ELSE CrcShift(IF v % 2 = 1 THEN (v \div 2) ^^ 40961 ELSE v \div 2, k - 1)

CrcTable == [i \in 0..255 |-> CrcShift(i, 8)]

(* table driven, folded iteratively (FoldLeft has a Java implementation: no deep recursion) *)
Crc16(bytes) == FoldLeft(LAMBDA acc, b : (acc \div 256) ^^ CrcTable[(acc ^^ b) % 256], 65535, bytes)

(* unit + pdu + crc, low byte first *)
RtuFrame(unit, pdu) ==
  LET body == <<unit>> \o pdu
      c == Crc16(body)
  IN body \o <<c % 256, c \div 256>>

RtuWellFormed(bytes) ==
  /\ Len(bytes) >= 4
  /\ Len(bytes) <= RtuMaxFrame
  /\ LET n == Len(bytes)
         c == Crc16(SubSeq(bytes, 1, n - 2))
     IN bytes[n - 1] = c % 256 /\ bytes[n] = c \div 256

(***************************************************************************)
(* Length of the PDU body after the function code.                         *)
(*   <<"fixed", n>>   n bytes follow                                       *)
(*   <<"offset", k>>  k bytes follow, the last of them counts the rest     *)
(*   <<"unknown", 0>> the function code cannot be delimited                *)
(* dir = "req" (server receiving) or "rsp" (client receiving).             *)
(***************************************************************************)
LenMode(dir, fc) ==
  IF dir = "rsp" /\ fc >= 128 THEN <<"fixed", 1>>
  ELSE IF fc \notin {1, 2, 3, 4, 5, 6, 15, 16} THEN <<"unknown", 0>>
  ELSE IF dir = "req"
       THEN IF fc \in {15, 16} THEN <<"offset", 5>> ELSE <<"fixed", 4>>
       ELSE IF fc \in {1, 2, 3, 4} THEN <<"offset", 1>> ELSE <<"fixed", 4>>

(***************************************************************************)
(* Head of the unconsumed stream.  On an error `used` is the number of     *)
(* bytes that are gone with it (the reader keeps the rest, which matters   *)
(* because the serial tasks re-open the port and keep their reader).       *)
(***************************************************************************)
RtuHead(dir, buf) ==
  LET More == [st |-> "more", kind |-> "", tx |-> 0, unit |-> 0, pdu |-> <<>>, used |-> 0]
      Err(k, u) == [st |-> "err", kind |-> k, tx |-> 0, unit |-> 0, pdu |-> <<>>, used |-> u]
  IN
  IF Len(buf) < 2 THEN More
  ELSE
  LET mode == LenMode(dir, buf[2]) IN
  IF mode[1] = "unknown" THEN Err("UnknownFunctionCode", 1)
  ELSE IF mode[1] = "offset" /\ Len(buf) < 2 + mode[2] THEN More
  ELSE
  LET n == IF mode[1] = "fixed" THEN mode[2] ELSE mode[2] + buf[2 + mode[2]] IN
  IF 1 + n > RtuMaxPdu THEN Err("FrameLengthTooBig", 1)
  ELSE IF Len(buf) < 2 + n + 2 THEN More
  ELSE
  LET body == SubSeq(buf, 1, 2 + n)
      c == Crc16(body)
  IN IF buf[3 + n] = c % 256 /\ buf[4 + n] = c \div 256
     THEN [st |-> "frame", kind |-> "", tx |-> 0, unit |-> buf[1],
           pdu |-> SubSeq(buf, 2, 2 + n), used |-> 4 + n]
     ELSE Err("CrcValidationFailure", 4 + n)
=============================================================================
