----------------------------- MODULE Client_MC -----------------------------
(***************************************************************************)
(* Design-level model checking of the client channel task (Client.tla)     *)
(* against the declarative statements of C10 - C14: every interleaving of  *)
(* the task's own steps with submissions, replies (genuine, stale,         *)
(* exception, garbage, partial), timer ticks, I/O faults, enable/disable,  *)
(* decode changes, shutdown, handle drops and abort, within per-class      *)
(* budgets (not a depth bound).  History / monitor variables are kept out  *)
(* of Client.tla so the trace specification shares exactly the same        *)
(* actions.                                                                *)
(***************************************************************************)
EXTENDS Client, FiniteSets

CONSTANTS Mode,        \* "session", "task" or "serial"
          NReq,        \* requests r = 1..NReq (shapes below)
          MaxCmds, MaxPeer, MaxTicks, MaxAttempts, Cap, MaxTO, RMin, RMax,
          WithAbort    \* BOOLEAN

VARIABLES hist,   \* r -> number of completions observed
          subm,   \* set of submitted requests
          lst,    \* monitor: last listener state and whether the path so far is legal
          bud     \* budgets used

mvars == <<s, out, hist, subm, lst, bud>>

ReqShape(r) ==
  CASE r = 1 -> MkReq(1, "future", 3, 1, 0, 1, <<>>, 1)       \* read one holding register, timeout 1
    [] r = 2 -> MkReq(2, "callback", 6, 1, 1, 1, <<5>>, 2)    \* write single register, timeout 2
    [] OTHER -> MkReq(r, "future", 3, 1, 0, 0, <<>>, 1)       \* invalid (count 0)

(* frames a peer may send, relative to the request in flight *)
GoodReplyPdu(req) == IF req.fc = 3 THEN <<3, 2, 0, 7>> ELSE SubSeq(EncodeRequest(req), 1, 5)
RtuPeerFrames ==
  LET req == s.cur.req
      good == RtuFrame(1, GoodReplyPdu(req))
  IN IF s.pc = "await"
     THEN {good,
           RtuFrame(2, GoodReplyPdu(req)),                                  \* another station answers
           RtuFrame(1, <<req.fc + 128, 2>>),                                \* exception
           RtuFrame(1, <<req.fc, 9, 9, 9, 9>>),                             \* malformed reply
           [good EXCEPT ![Len(good)] = (@ + 1) % 256],                      \* CRC mismatch
           SubSeq(good, 1, 3)}                                              \* partial frame
     ELSE {RtuFrame(1, <<3, 2, 0, 7>>), <<1, 77>>}                          \* unsolicited; unknown function

PeerFrames ==
  LET tx == s.cur.tx
      req == s.cur.req
  IN IF Mode = "serial" THEN RtuPeerFrames
     ELSE IF s.pc = "await"
     THEN {MbapFrame(tx, 1, GoodReplyPdu(req)),
           MbapFrame((tx + TxMod - 1) % TxMod, 1, GoodReplyPdu(req)),      \* stale by one
           MbapFrame(tx, 1, <<req.fc + 128, 2>>),                           \* exception
           MbapFrame(tx, 1, <<req.fc, 9, 9>>),                              \* malformed reply
           <<0, 0, 0, 1, 0, 2, 1, 3>>,                                      \* bad protocol id
           SubSeq(MbapFrame(tx, 1, GoodReplyPdu(req)), 1, 3)}               \* partial frame
     ELSE {MbapFrame(s.txid, 1, <<3, 2, 0, 7>>),                            \* unsolicited, would match the next id
           <<0, 0, 0, 1, 0, 2, 1, 3>>}

InitMC ==
  /\ s = Init0(Mode, IF Mode = "serial" THEN "rtu" ELSE "tcp", Cap, IF Mode = "serial" THEN 0 ELSE MaxTO, RMin, RMax, 0)
  /\ out = NoOut
  /\ hist = [r \in 1..NReq |-> 0]
  /\ subm = {}
  /\ lst = [state |-> "none", ok |-> TRUE, shutdowns |-> 0]
  /\ bud = [cmds |-> 0, peer |-> 0, ticks |-> 0, faults |-> 0, abort |-> 0, conns |-> 0]

Env ==
  \/ \E r \in (1..NReq) \ subm : Submit(ReqShape(r)) /\ subm' = subm \cup {r} /\ UNCHANGED bud
  \/ /\ bud.cmds < MaxCmds
     /\ \E t \in {"en", "dis", "dec", "shut"} : Command(t)
     /\ bud' = [bud EXCEPT !.cmds = @ + 1] /\ UNCHANGED subm
  \/ /\ bud.cmds < MaxCmds /\ s.hnd /\ DropHandles
     /\ bud' = [bud EXCEPT !.cmds = @ + 1] /\ UNCHANGED subm
  \/ /\ WithAbort /\ bud.abort = 0 /\ Abort
     /\ bud' = [bud EXCEPT !.abort = 1] /\ UNCHANGED subm
  \/ /\ bud.peer < MaxPeer /\ s.conn = "open"
     /\ \E f \in PeerFrames : PeerBytes(f)
     /\ bud' = [bud EXCEPT !.peer = @ + 1] /\ UNCHANGED subm
  \/ /\ bud.faults = 0 /\ s.conn = "open" /\ (PeerClose \/ WriteBreaks)
     /\ bud' = [bud EXCEPT !.faults = 1] /\ UNCHANGED subm
  \/ /\ bud.ticks < MaxTicks /\ Tick(1)
     /\ bud' = [bud EXCEPT !.ticks = @ + 1] /\ UNCHANGED subm
  \/ /\ Mode = "task" /\ s.attempts <= MaxAttempts
     /\ \E res \in {"ok", "err"} : ConnectorResult(res)
     /\ UNCHANGED <<bud, subm>>
  \/ /\ Mode = "serial" /\ s.attempts <= MaxAttempts /\ bud.cmds < MaxCmds
     /\ PortSet(~s.portOk)
     /\ bud' = [bud EXCEPT !.cmds = @ + 1] /\ UNCHANGED subm
  \/ /\ Mode = "session" /\ bud.conns < MaxAttempts /\ NewConnection
     /\ bud' = [bud EXCEPT !.conns = @ + 1] /\ UNCHANGED subm

(***************************************************************************)
(* Listener monitor (C13): which state may follow which                    *)
(***************************************************************************)
LegalNext(prev, nxt, pre) ==
  CASE nxt = "Disabled" -> prev \in {"none", "Connected", "Connecting", "WaitAfterFailedConnect", "WaitAfterDisconnect", "Open", "Wait"}
    [] nxt = "Connecting" -> prev \in {"Disabled", "WaitAfterFailedConnect", "WaitAfterDisconnect", "Connected"} /\ pre.enabled
    [] nxt = "Connected" -> prev = "Connecting"
    [] nxt = "WaitAfterFailedConnect" -> prev = "Connecting"
    [] nxt = "WaitAfterDisconnect" -> prev = "Connected"
    [] nxt = "Shutdown" -> prev # "Shutdown" /\ prev # "none"
    \* PortState of the serial task
    [] nxt = "Open" -> prev \in {"Disabled", "Wait"} /\ pre.enabled /\ pre.portOk
    [] nxt = "Wait" -> prev \in {"Disabled", "Wait", "Open"}
    [] OTHER -> FALSE

Monitor ==
  /\ hist' = IF out'.e = "done" THEN [hist EXCEPT ![out'.r] = @ + 1] ELSE hist
  /\ lst' = IF out'.e = "listener"
            THEN [state |-> out'.state,
                  ok |-> lst.ok /\ LegalNext(lst.state, out'.state, s) /\ lst.shutdowns = 0,
                  shutdowns |-> lst.shutdowns + (IF out'.state = "Shutdown" THEN 1 ELSE 0)]
            ELSE lst

NextMC == /\ \/ TaskStep /\ UNCHANGED <<subm, bud>>
             \/ Env
          /\ Monitor

SpecMC == InitMC /\ [][NextMC]_mvars

(***************************************************************************)
(* The properties                                                          *)
(***************************************************************************)
\* C10: never completed twice
AtMostOnce == \A r \in 1..NReq : hist[r] <= 1

\* C10: once the task is gone and nothing is in flight towards a caller, every submitted request
\* has completed (none lost, none left pending)
NothingPendingAtEnd ==
  (TaskGone /\ s.ready = {}) => \A r \in subm : hist[r] = 1

\* C10: every request is somewhere: queued, blocked in send, in flight, completed or about to be observed
Conservation ==
  \A r \in subm :
     LET places == (IF r \in PendingReqs(s.queue) THEN 1 ELSE 0) + (IF r \in PendingReqs(s.sendq) THEN 1 ELSE 0)
                   + (IF s.cur.r = r THEN 1 ELSE 0) + hist[r]
                   + Cardinality({d \in s.ready : d.r = r})
     IN places = 1

\* completions created by this step (resolved promises and directly invoked callbacks)
NewDone == (s'.ready \ s.ready) \cup (IF out'.e = "done" /\ out' \notin s.ready THEN {out'} ELSE {})

\* C10: the error tells what happened (an action property over the step that creates the completion)
Classified ==
  [][ \A d \in NewDone :
        CASE d.class = "noconn" -> Down
          [] d.class = "timeout" -> s.pc = "await" /\ s.now >= s.cur.deadline /\ d.r = s.cur.r
          [] d.class \in {"io", "badframe"} -> s'.pc = "ending"
          [] d.class = "shutdown" -> s'.pc \in {"done", "aborted"}
          [] d.class \in {"ok", "exc", "err"} -> s.pc = "await" /\ d.r = s.cur.r
          [] OTHER -> TRUE ]_mvars

\* shutdown is reported only when the task is gone (or going: the promise is dropped with it)
ShutdownOnlyWhenGone ==
  \A d \in s.ready : d.class = "shutdown" => TaskGone

\* C11
OneOutstanding == (s.cur # NoCur) <=> (s.pc = "await")
OnlyMatchingCompletes ==
  [][ \A d \in NewDone : d.class \in {"ok", "exc", "err"} =>
        LET h == RHead IN h.st = "frame" /\ (s.framing = "tcp" => h.tx = s.cur.tx) ]_mvars
TxAdvancesPerDequeue ==
  [][ (s.pc = "idle" /\ s.queue # <<>> /\ Head(s.queue).t = "req" /\ Len(s'.queue) < Len(s.queue) /\ s'.pc # "aborted")
        => s'.txid = (s.txid + 1) % TxMod ]_mvars

\* C12
TimeoutNeverEarly == [][ \A d \in NewDone : d.class = "timeout" => s.now >= s.cur.deadline ]_mvars
CounterRule == s.maxTO > 0 => s.toCount <= s.maxTO
NoLimitNeverDrops == [][ (s.maxTO = 0) => ~(s'.pc = "ending" /\ s'.endReason = "MaxTimeouts") ]_mvars

\* C13
ListenerPathLegal == lst.ok
FailFast == (Quiescent /\ Down) => PendingReqs(s.queue) = {}
NoConnectWhileDisabled == [][ (out'.e = "attempt") => s.enabled ]_mvars
ShutdownIsLast == lst.shutdowns <= 1

\* C14: the announced delay is the delay waited
DelaysFollowStrategy ==
  [][ (out'.e = "listener" /\ out'.state \in {"WaitAfterFailedConnect", "WaitAfterDisconnect", "Wait"})
        => /\ s'.wake = s.now + out'.d
           /\ out'.d >= s.rmin /\ out'.d <= s.rmax
           /\ (s'.pc = "wait_disc" => out'.d = s.rmin)
           /\ (s'.pc = "wait_fail" => out'.d = s.retryCur) ]_mvars
\* C14 (serial): an open attempt is made only when enabled, and its announced outcome is the port's
OpenOutcome ==
  [][ (out'.e = "listener" /\ out'.state = "Open") => s.portOk /\ s'.retryCur = s.rmin ]_mvars
AttemptNotBeforeWake ==
  [][ (s.pc \in {"wait_fail", "wait_disc"} /\ s'.pc = "post" /\ s.enabled /\ s'.enabled) => s.now >= s.wake ]_mvars

\* C20: a decode change alters nothing but is consumed in FIFO position
DecodeUnobservable ==
  [][ (s.queue # <<>> /\ Head(s.queue).t = "dec" /\ Len(s'.queue) < Len(s.queue) /\ s.enabled /\ s'.pc \notin {"aborted", "done"})
        => /\ out' = NoOut
           /\ s' = [s EXCEPT !.queue = Tail(s.queue)] ]_mvars

\* C07 / C10 (liveness): left alone, the task always comes to rest -- it cannot keep itself busy for ever
\* (a reconnect loop without a delay, a request bounced between queue and wire, a frame re-parsed endlessly)
FairSpecMC == SpecMC /\ WF_mvars(TaskStep /\ UNCHANGED <<subm, bud>> /\ Monitor)
ComesToRest == <>[]Quiescent
\* ... and when it has come to rest with the channel gone, nothing is owed to any caller
EventuallySettled == <>[](Quiescent /\ (TaskGone => \A r \in subm : hist[r] = 1 \/ \E d \in s.ready : d.r = r))

View == <<s, out, hist, subm, lst, bud>>
=============================================================================
