------------------------------- MODULE Client -------------------------------
(***************************************************************************)
(* The client channel task (C10-C14, client side of C03-C07, C20).         *)
(*                                                                         *)
(* One record variable `s` holds the state of the task and of its          *)
(* environment, `out` is the observable event emitted by the last step     *)
(* (NoOut for internal steps).  Every task action mirrors one step of the  *)
(* code: ClientLoop::poll / run_cmd / run_one_request / execute_request /  *)
(* fail_next_request, TcpChannelTask::run / run_inner /                    *)
(* try_connect_and_run / run_connection / handle_failed_connection.        *)
(* What the properties require is stated declaratively further down and    *)
(* in ClientTrace.tla / Client_MC.tla.                                     *)
(*                                                                         *)
(* mode "session": only the request loop on one connection after another   *)
(* (harness: verif::ClientSession); mode "task": the whole TCP channel     *)
(* task with connect / retry / listener; mode "serial": the RTU channel    *)
(* task (SerialChannelTask::run / run_inner / try_open_and_run), which     *)
(* differs in that opening the port is one synchronous call, there is no   *)
(* "connecting" notification and the listener speaks PortState.            *)
(***************************************************************************)
EXTENDS ModbusPdu, Mbap, Rtu, TLC

CONSTANTS TxMod,           \* 65536; scaled down in Client_MC
          Bug              \* "none"; negative controls: "notxcheck", "stalereader", "nocounterreset"

VARIABLES s, out

NoOut == [e |-> "none"]
NoCur == [r |-> 0, req |-> [fc |-> 0, style |-> "future"], tx |-> 0, deadline |-> 0]

Init0(mode, framing, cap, maxTO, rmin, rmax, txid0) ==
  [mode |-> mode, framing |-> framing, cap |-> cap, maxTO |-> maxTO, rmin |-> rmin, rmax |-> rmax,
   pc |-> IF mode = "session" THEN "idle" ELSE "start",
   enabled |-> FALSE, queue |-> <<>>, sendq |-> <<>>, hnd |-> TRUE,
   txid |-> txid0, cur |-> NoCur, toCount |-> 0, now |-> 0,
   conn |-> IF mode = "session" THEN "open" ELSE "none",
   rbuf |-> <<>>, eof |-> FALSE, wfail |-> FALSE,
   endReason |-> "", ready |-> {}, wake |-> 0, retryCur |-> rmin, connRes |-> "none",
   attempts |-> 0, portOk |-> TRUE, whold |-> FALSE]

(***************************************************************************)
(* Output events                                                           *)
(***************************************************************************)
Tx(bytes) == [e |-> "tx", bytes |-> bytes]
Done(r, class, code, values) == [e |-> "done", r |-> r, class |-> class, code |-> code, values |-> values]
End(reason) == [e |-> "end", reason |-> reason]
\* ClientState for the TCP task, PortState for the serial one
Listener(state, d) ==
  [e |-> "listener",
   state |-> IF s.mode # "serial" THEN state
             ELSE CASE state = "Connected" -> "Open"
                    [] state \in {"WaitAfterFailedConnect", "WaitAfterDisconnect"} -> "Wait"
                    [] OTHER -> state,
   d |-> d]

ReqFrame(req, tx) ==
  IF s.framing = "tcp" THEN MbapFrame(tx, req.unit, EncodeRequest(req))
  ELSE RtuFrame(req.unit, EncodeRequest(req))

RHead == IF s.framing = "tcp" THEN MbapHead(s.rbuf) ELSE RtuHead("rsp", s.rbuf)
DropN(q, n) == SubSeq(q, n + 1, Len(q))

ChanClosed == ~s.hnd /\ s.queue = <<>> /\ s.sendq = <<>>
TaskGone == s.pc \in {"done", "aborted"}
InSession == s.pc \in {"idle", "await"}
Down == s.pc \in {"wait_en", "connecting", "wait_fail", "wait_disc"}

PendingReqs(q) == {q[i].r : i \in {j \in 1..Len(q) : q[j].t = "req"}}
ShutdownAll(rs) == {Done(r, "shutdown", 0, <<>>) : r \in rs}

(***************************************************************************)
(* Internal: a blocked sender gets its slot (tokio mpsc is FIFO-fair)      *)
(***************************************************************************)
GAdmit == s.sendq # <<>> /\ Len(s.queue) < s.cap /\ ~TaskGone
Admit == /\ GAdmit
         /\ s' = [s EXCEPT !.queue = Append(s.queue, Head(s.sendq)), !.sendq = Tail(s.sendq)]
         /\ out' = NoOut

(***************************************************************************)
(* Completion.  A callback-style request is completed by invoking the      *)
(* callback inside the task step itself (it is that step's output).  A     *)
(* future-style request is completed by resolving its promise; the caller  *)
(* observes it when its own task runs next, i.e. any time before the       *)
(* system is quiescent again (`ready`, emitted by Observe).                *)
(***************************************************************************)
CompleteIn(st, style, ev) == IF style = "callback" THEN st ELSE [st EXCEPT !.ready = st.ready \cup {ev}]
CompleteOut(style, ev) == IF style = "callback" THEN ev ELSE NoOut

GObserve == s.ready # {}
Observe == /\ GObserve
           /\ \E d \in s.ready : s' = [s EXCEPT !.ready = s.ready \ {d}] /\ out' = d

Ending(st, reason) == [st EXCEPT !.pc = "ending", !.endReason = reason, !.cur = NoCur]

(***************************************************************************)
(* The request loop on an open connection                                  *)
(***************************************************************************)
\* (a transport that does not take the request's bytes yet -- full send buffer, flow control -- parks the task in its write:
\* the request counts as transmitted, and its timeout starts, when the write completes)
WriteParked == s.whold /\ s.queue # <<>> /\ Head(s.queue).t = "req" /\ Head(s.queue).valid /\ ~s.wfail
GDequeue == s.pc = "idle" /\ s.queue # <<>> /\ ~WriteParked
Dequeue ==
  /\ GDequeue
  /\ LET h == Head(s.queue)
         s1 == [s EXCEPT !.queue = Tail(s.queue)]
     IN
     CASE h.t = "req" ->
            LET s2 == [s1 EXCEPT !.txid = (s.txid + 1) % TxMod] IN
            IF ~h.valid THEN
                 \* rejected while encoding: an error, nothing transmitted; restarts the timeout count
                 /\ s' = CompleteIn([s2 EXCEPT !.toCount = 0], h.style, Done(h.r, "reject", 0, <<>>))
                 /\ out' = CompleteOut(h.style, Done(h.r, "reject", 0, <<>>))
            ELSE IF s.wfail THEN
                 /\ s' = CompleteIn(Ending(s2, "Io"), h.style, Done(h.r, "io", 0, <<>>))
                 /\ out' = CompleteOut(h.style, Done(h.r, "io", 0, <<>>))
            ELSE /\ s' = [s2 EXCEPT !.pc = "await",
                                    !.cur = [r |-> h.r, req |-> h, tx |-> s.txid, deadline |-> s.now + h.timeout]]
                 /\ out' = Tx(ReqFrame(h, s.txid))
       [] h.t = "en" -> s' = [s1 EXCEPT !.enabled = TRUE] /\ out' = NoOut
       [] h.t = "dec" -> /\ s' = IF s.enabled THEN s1 ELSE Ending(s1, "Disabled")
                         /\ out' = NoOut
       [] h.t = "dis" -> s' = Ending([s1 EXCEPT !.enabled = FALSE], "Disabled") /\ out' = NoOut
       [] h.t = "shut" -> s' = Ending(s1, "Shutdown") /\ out' = NoOut

GIdleClosed == s.pc = "idle" /\ ChanClosed
IdleClosed == GIdleClosed /\ s' = Ending(s, "Shutdown") /\ out' = NoOut

(* frames arriving while no request is outstanding are dropped; a malformed one ends the session *)
GIdleFrame == s.pc = "idle" /\ RHead.st # "more"
IdleFrame ==
  /\ GIdleFrame
  /\ LET h == RHead IN
       IF h.st = "frame" THEN s' = [s EXCEPT !.rbuf = DropN(s.rbuf, h.used)]
       ELSE s' = Ending([s EXCEPT !.rbuf = DropN(s.rbuf, h.used)], "BadFrame")
  /\ out' = NoOut

GIdleIo == s.pc = "idle" /\ RHead.st = "more" /\ s.eof
IdleIo == GIdleIo /\ s' = Ending(s, "Io") /\ out' = NoOut

ReplyOutcome(req, pdu) ==
  LET d == DecodeResponse(req, pdu) IN
  CASE d.class = "ok" -> Done(req.r, "ok", 0, d.values)
    [] d.class = "exc" -> Done(req.r, "exc", d.code, <<>>)
    [] OTHER -> Done(req.r, "err", 0, <<>>)

\* (where the property leaves the outcome open -- see ModbusPdu!ByteCountFieldDisagrees -- both outcomes are behaviours)
ReplyOutcomes(req, pdu) ==
  {ReplyOutcome(req, pdu)} \cup (IF ByteCountFieldDisagrees(req, pdu) THEN {Done(req.r, "err", 0, <<>>)} ELSE {})

GAwaitFrame == s.pc = "await" /\ RHead.st # "more"
AwaitFrame ==
  /\ GAwaitFrame
  /\ LET h == RHead
         s1 == [s EXCEPT !.rbuf = DropN(s.rbuf, h.used)]
     IN
     IF h.st = "err" THEN
          /\ s' = CompleteIn(Ending(s1, "BadFrame"), s.cur.req.style, Done(s.cur.r, "badframe", 0, <<>>))
          /\ out' = CompleteOut(s.cur.req.style, Done(s.cur.r, "badframe", 0, <<>>))
     ELSE IF s.framing = "tcp" /\ h.tx # s.cur.tx /\ Bug # "notxcheck" THEN
          \* a late reply, a duplicate, an unsolicited frame: discarded, keep waiting
          s' = s1 /\ out' = NoOut
     ELSE \E o \in ReplyOutcomes(s.cur.req, h.pdu) :
          /\ s' = CompleteIn([s1 EXCEPT !.pc = "idle", !.cur = NoCur, !.toCount = 0], s.cur.req.style, o)
          /\ out' = CompleteOut(s.cur.req.style, o)

GAwaitIo == s.pc = "await" /\ RHead.st = "more" /\ s.eof
AwaitIo == /\ GAwaitIo
           /\ s' = CompleteIn(Ending(s, "Io"), s.cur.req.style, Done(s.cur.r, "io", 0, <<>>))
           /\ out' = CompleteOut(s.cur.req.style, Done(s.cur.r, "io", 0, <<>>))

(* the request's own timeout has elapsed since transmission *)
GTimeout == s.pc = "await" /\ s.now >= s.cur.deadline
Timeout ==
  /\ GTimeout
  /\ LET n == s.toCount + 1
         d == Done(s.cur.r, "timeout", 0, <<>>)
         s1 == IF s.maxTO > 0 /\ n >= s.maxTO
               THEN Ending([s EXCEPT !.toCount = n], "MaxTimeouts")
               ELSE [s EXCEPT !.pc = "idle", !.cur = NoCur, !.toCount = IF s.maxTO > 0 THEN n ELSE 0]
     IN s' = CompleteIn(s1, s.cur.req.style, d) /\ out' = CompleteOut(s.cur.req.style, d)

(***************************************************************************)
(* How a session ends                                                      *)
(***************************************************************************)
GFinishEnd == s.pc = "ending"
FinishEnd ==
  /\ GFinishEnd
  /\ IF s.mode = "session" THEN
        /\ s' = [s EXCEPT !.pc = "ended", !.conn = "none"]
        /\ out' = End(s.endReason)
     ELSE
        CASE s.endReason = "Shutdown" -> s' = [s EXCEPT !.pc = "stopping", !.conn = "none"] /\ out' = NoOut
          [] s.endReason = "Disabled" -> s' = [s EXCEPT !.pc = "post", !.conn = "none"] /\ out' = NoOut
          [] OTHER -> /\ s' = [s EXCEPT !.pc = "wait_disc", !.conn = "none", !.wake = s.now + s.rmin]
                      /\ out' = Listener("WaitAfterDisconnect", s.rmin)

(***************************************************************************)
(* Life-cycle of the channel task (mode "task")                            *)
(***************************************************************************)
GStart == s.pc = "start"
Start == GStart /\ s' = [s EXCEPT !.pc = "wait_en"] /\ out' = Listener("Disabled", 0)

GBeginConnect == s.pc = "wait_en" /\ s.enabled
BeginConnect == /\ GBeginConnect
                /\ s' = [s EXCEPT !.pc = "connect_call"]
                /\ out' = IF s.mode = "serial" THEN NoOut ELSE Listener("Connecting", 0)

(* the connection attempt itself (TcpStream::connect / the harness connector) starts here;
   opening a serial port is synchronous: its outcome is known at once *)
GAttempt == s.pc = "connect_call"
Attempt == /\ GAttempt
           /\ s' = [s EXCEPT !.pc = "connecting", !.attempts = s.attempts + 1,
                             !.connRes = IF s.mode # "serial" THEN "none" ELSE IF s.portOk THEN "ok" ELSE "err"]
           /\ out' = [e |-> "attempt"]

(* while not connected every queued request fails at once with no-connection *)
Waiting == \/ s.pc = "wait_en" /\ ~s.enabled
           \/ s.pc \in {"wait_fail", "wait_disc"}
           \/ s.pc = "connecting" /\ s.mode # "serial"
GFailNext == Waiting /\ s.queue # <<>>
FailNext ==
  /\ GFailNext
  /\ LET h == Head(s.queue)
         s1 == [s EXCEPT !.queue = Tail(s.queue)]
     IN
     CASE h.t = "req" -> /\ s' = CompleteIn(s1, h.style, Done(h.r, "noconn", 0, <<>>))
                         /\ out' = CompleteOut(h.style, Done(h.r, "noconn", 0, <<>>))
       [] h.t = "en" -> s' = [s1 EXCEPT !.enabled = TRUE] /\ out' = NoOut
       [] h.t = "dec" -> s' = s1 /\ out' = NoOut
       [] h.t = "dis" -> /\ s' = [s1 EXCEPT !.enabled = FALSE,
                                          !.pc = IF s.pc = "wait_en" \/ ~s.enabled THEN s.pc ELSE "post"]
                         /\ out' = NoOut
       [] h.t = "shut" -> s' = [s1 EXCEPT !.pc = "stopping"] /\ out' = NoOut

GFailClosed == Waiting /\ ChanClosed
FailClosed == GFailClosed /\ s' = [s EXCEPT !.pc = "stopping"] /\ out' = NoOut

GConnected == s.pc = "connecting" /\ s.connRes = "ok"
Connected ==
  /\ GConnected
  /\ s' = [s EXCEPT !.pc = "idle", !.conn = "open", !.retryCur = s.rmin,
                    !.toCount = IF Bug = "nocounterreset" THEN s.toCount ELSE 0,
                    !.rbuf = IF Bug = "stalereader" THEN s.rbuf ELSE <<>>,
                    !.eof = FALSE, !.wfail = FALSE, !.connRes = "none"]
  /\ out' = Listener("Connected", 0)

GConnFailed == s.pc = "connecting" /\ s.connRes = "err"
ConnFailed ==
  /\ GConnFailed
  /\ s' = [s EXCEPT !.pc = "wait_fail", !.wake = s.now + s.retryCur,
                    !.retryCur = Min2(2 * s.retryCur, s.rmax), !.connRes = "none"]
  /\ out' = Listener("WaitAfterFailedConnect", s.retryCur)

GWaitExpired == s.pc \in {"wait_fail", "wait_disc"} /\ s.now >= s.wake
WaitExpired == GWaitExpired /\ s' = [s EXCEPT !.pc = "post"] /\ out' = NoOut

GPost == s.pc = "post"
Post == /\ GPost
        /\ s' = [s EXCEPT !.pc = "wait_en"]
        /\ out' = IF s.enabled THEN NoOut ELSE Listener("Disabled", 0)

(* the task ends: whatever is still queued is completed with Shutdown by the dropped promises *)
GStopping == s.pc = "stopping"
Stopping ==
  /\ GStopping
  /\ s' = [s EXCEPT !.pc = "done", !.queue = <<>>, !.sendq = <<>>,
                    !.ready = s.ready \cup ShutdownAll(PendingReqs(s.queue) \cup PendingReqs(s.sendq))]
  /\ out' = Listener("Shutdown", 0)

TaskGuards == GAdmit \/ GObserve \/ GDequeue \/ GIdleClosed \/ GIdleFrame \/ GIdleIo \/ GAwaitFrame
              \/ GAwaitIo \/ GTimeout \/ GFinishEnd \/ GStart \/ GBeginConnect \/ GAttempt \/ GFailNext
              \/ GFailClosed \/ GConnected \/ GConnFailed \/ GWaitExpired \/ GPost \/ GStopping

TaskStep == Admit \/ Observe \/ Dequeue \/ IdleClosed \/ IdleFrame \/ IdleIo \/ AwaitFrame \/ AwaitIo
            \/ Timeout \/ FinishEnd \/ Start \/ BeginConnect \/ Attempt \/ FailNext \/ FailClosed \/ Connected
            \/ ConnFailed \/ WaitExpired \/ Post \/ Stopping

(* nothing the task could do on its own: inputs and the passage of time happen only here *)
Quiescent == ~TaskGuards

(***************************************************************************)
(* Environment moves (parameterised; the trace spec binds the parameters   *)
(* to logged events, Client_MC draws them from small sets)                 *)
(***************************************************************************)
MkReq(r, style, fc, unit, start, count, values, timeout) ==
  LET q == [t |-> "req", r |-> r, style |-> style, fc |-> fc, unit |-> unit, start |-> start, count |-> count,
            values |-> values, timeout |-> timeout, valid |-> FALSE]
  IN [q EXCEPT !.valid = ClientRequestValid(q)]

Enqueue(st, item) ==
  IF Len(st.queue) < st.cap /\ st.sendq = <<>>
  THEN [st EXCEPT !.queue = Append(st.queue, item)]
  ELSE [st EXCEPT !.sendq = Append(st.sendq, item)]

(* a request handed to the API.  An invalid one may be refused by the API call itself or by the
   task when it encodes it; either way it fails with an error and nothing is transmitted. *)
Submit(req) ==
  /\ Quiescent
  /\ out' = NoOut
  /\ \/ TaskGone /\ s' = [s EXCEPT !.ready = s.ready \cup {Done(req.r, "shutdown", 0, <<>>)}]
     \/ ~TaskGone /\ s' = Enqueue(s, req)
     \/ ~req.valid /\ s' = [s EXCEPT !.ready = s.ready \cup {Done(req.r, "reject", 0, <<>>)}]

Command(t) ==
  /\ Quiescent /\ out' = NoOut
  /\ IF TaskGone THEN s' = s ELSE s' = Enqueue(s, [t |-> t])

DropHandles == Quiescent /\ out' = NoOut /\ s' = [s EXCEPT !.hnd = FALSE]

(* JoinHandle::abort: the task is gone at once; everything pending completes with Shutdown *)
Abort ==
  /\ Quiescent /\ ~TaskGone /\ out' = NoOut
  /\ s' = [s EXCEPT !.pc = "aborted", !.queue = <<>>, !.sendq = <<>>, !.cur = NoCur, !.conn = "none",
                    !.ready = s.ready \cup ShutdownAll(PendingReqs(s.queue) \cup PendingReqs(s.sendq)
                                        \cup (IF s.pc = "await" THEN {s.cur.r} ELSE {}))]

PeerBytes(bytes) ==
  /\ Quiescent /\ out' = NoOut
  /\ s' = IF s.conn = "open" THEN [s EXCEPT !.rbuf = s.rbuf \o bytes] ELSE s

PeerClose == Quiescent /\ out' = NoOut /\ s' = IF s.conn = "open" THEN [s EXCEPT !.eof = TRUE] ELSE s
WriteBreaks == Quiescent /\ out' = NoOut /\ s' = [s EXCEPT !.wfail = TRUE]

Tick(d) == Quiescent /\ out' = NoOut /\ s' = [s EXCEPT !.now = s.now + d]

ConnectorResult(res) ==
  /\ Quiescent /\ s.pc = "connecting" /\ s.connRes = "none" /\ out' = NoOut
  /\ s' = [s EXCEPT !.connRes = res]

\* the attempt completes in the same instant in which a command was handed in: both branches of the
\* task's select! are ready and either may be taken first
ConnectorResultRacing(res) ==
  /\ s.pc = "connecting" /\ s.connRes = "none" /\ out' = NoOut
  /\ s' = [s EXCEPT !.connRes = res]

\* the transport stops / resumes taking bytes from the writer
WriteHold(b) == Quiescent /\ out' = NoOut /\ s' = [s EXCEPT !.whold = b]

\* whether the next attempts to open the serial port succeed
PortSet(ok) == Quiescent /\ out' = NoOut /\ s' = [s EXCEPT !.portOk = ok]

(* session mode: the harness runs the loop again on a new connection *)
NewConnection ==
  /\ Quiescent /\ s.mode = "session" /\ s.pc = "ended" /\ out' = NoOut
  /\ s' = [s EXCEPT !.pc = "idle", !.conn = "open", !.rbuf = <<>>, !.eof = FALSE, !.wfail = FALSE,
                    !.toCount = 0]

=============================================================================
