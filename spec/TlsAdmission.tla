---------------------------- MODULE TlsAdmission ----------------------------
(***************************************************************************)
(* Admission of a TLS peer (C09) as a pure reference:                      *)
(*   cfg  = [mode: "ca"|"self", min: 12|13, authz: BOOLEAN,                *)
(*           trust: name of the configured authority / expected peer cert, *)
(*           name: expected server name ("" = not checked)]   (client side)*)
(*   peer = [cert: fixture name or "none", versions: subset of {12, 13}]   *)
(* Admit(..) = [ok, version, role].  The certificate facts are those of    *)
(* the committed fixtures (fixtures/gen_certs.sh).                         *)
(***************************************************************************)
EXTENDS Naturals, Sequences, FiniteSets

\* issuer, validity, number of role extensions, role, names the certificate is valid for
CertInfo(c) ==
  CASE c = "server"              -> [issuer |-> "ca1", valid |-> "ok", roles |-> 0, role |-> "", names |-> {"test.com", "127.0.0.1"}]
    [] c = "server_othername"    -> [issuer |-> "ca1", valid |-> "ok", roles |-> 0, role |-> "", names |-> {"other.example"}]
    \* no subjectAltName at all: the name is the subject's common name (the documented fallback of the client's verifier)
    [] c = "server_cnonly"       -> [issuer |-> "ca1", valid |-> "ok", roles |-> 0, role |-> "", names |-> {"test.com"}]
    [] c = "server_ca2"          -> [issuer |-> "ca2", valid |-> "ok", roles |-> 0, role |-> "", names |-> {"test.com", "127.0.0.1"}]
    [] c = "server_expired"      -> [issuer |-> "ca1", valid |-> "expired", roles |-> 0, role |-> "", names |-> {"test.com", "127.0.0.1"}]
    [] c = "server_notyet"       -> [issuer |-> "ca1", valid |-> "notyet", roles |-> 0, role |-> "", names |-> {"test.com", "127.0.0.1"}]
    [] c = "client_operator"     -> [issuer |-> "ca1", valid |-> "ok", roles |-> 1, role |-> "operator", names |-> {}]
    [] c = "client_viewer"       -> [issuer |-> "ca1", valid |-> "ok", roles |-> 1, role |-> "viewer", names |-> {}]
    [] c = "client_mixedcase"    -> [issuer |-> "ca1", valid |-> "ok", roles |-> 1, role |-> "OpeRator", names |-> {}]
    [] c = "client_norole"       -> [issuer |-> "ca1", valid |-> "ok", roles |-> 0, role |-> "", names |-> {}]
    [] c = "client_tworoles"     -> [issuer |-> "ca1", valid |-> "ok", roles |-> 2, role |-> "", names |-> {}]
    [] c = "client_ca2_operator" -> [issuer |-> "ca2", valid |-> "ok", roles |-> 1, role |-> "operator", names |-> {}]
    [] c = "client_expired"      -> [issuer |-> "ca1", valid |-> "expired", roles |-> 1, role |-> "operator", names |-> {}]
    [] c = "client_notyet"       -> [issuer |-> "ca1", valid |-> "notyet", roles |-> 1, role |-> "operator", names |-> {}]
    [] c = "ss_a"                -> [issuer |-> "ss_a", valid |-> "ok", roles |-> 1, role |-> "operator", names |-> {}]
    [] c = "ss_b"                -> [issuer |-> "ss_b", valid |-> "ok", roles |-> 1, role |-> "operator", names |-> {}]
    [] c = "ss_c"                -> [issuer |-> "ss_c", valid |-> "ok", roles |-> 1, role |-> "operator", names |-> {}]
    [] c = "ss_expired"          -> [issuer |-> "ss_expired", valid |-> "expired", roles |-> 1, role |-> "operator", names |-> {}]
    [] OTHER                     -> [issuer |-> "?", valid |-> "ok", roles |-> 0, role |-> "", names |-> {}]

Rejected == [ok |-> FALSE, version |-> 0, role |-> ""]

\* the certificate validates under the configured mode
CertValid(cfg, cert) ==
  /\ cert # "none"
  /\ LET i == CertInfo(cert) IN
       /\ i.valid = "ok"
       /\ IF cfg.mode = "ca" THEN i.issuer = cfg.trust
          ELSE cert = cfg.trust          \* byte-identical to the configured self-signed certificate
       /\ (cfg.name # "" /\ cfg.mode = "ca") => cfg.name \in i.names

Admit(cfg, peer) ==
  LET common == {v \in peer.versions : v >= cfg.min} IN
  IF common = {} THEN Rejected                         \* never below the configured minimum
  ELSE IF ~CertValid(cfg, peer.cert) THEN Rejected     \* only authenticated peers
  ELSE IF cfg.authz /\ CertInfo(peer.cert).roles # 1 THEN Rejected
  ELSE [ok |-> TRUE,
        version |-> IF 13 \in common THEN 13 ELSE 12,  \* always when a valid peer offers a version >= min
        role |-> IF cfg.authz THEN CertInfo(peer.cert).role ELSE ""]
=============================================================================
