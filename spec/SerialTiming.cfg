SPECIFICATION Spec
CONSTRAINT Furthest
INVARIANT DelayTable
POSTCONDITION TraceAccepted
CHECK_DEADLOCK FALSE
