-------------------------- MODULE RtuServerTask_MC --------------------------
(***************************************************************************)
(* Design-level model of the RTU server task (serial::server::             *)
(* RtuServerTask::run): open the port, run the session until it fails or   *)
(* is shut down, wait, open again -- with the doubling retry strategy, a   *)
(* clock, a port that comes and goes, sessions that die (framing error,    *)
(* I/O error), and shutdown / handle drop arriving at any moment.          *)
(* Every interleaving within the budgets is explored.  The same step       *)
(* structure is what RtuServerTaskTrace.tla matches recorded runs against. *)
(*                                                                         *)
(* WaitRule = "sleep_for"  the wait also listens to the command queue      *)
(*                         (the code: SessionTask::sleep_for)              *)
(* WaitRule = "plain"      negative control: a plain sleep -- shutdown     *)
(*                         during the wait is noticed only afterwards,     *)
(*                         which TLC must report as a violation of         *)
(*                         ShutdownPrompt.                                 *)
(***************************************************************************)
EXTENDS Naturals, TLC

CONSTANTS RMin, RMax, MaxTicks, MaxToggles, MaxFaults, WaitRule

VARIABLES pc,        \* "open" (about to open) | "run" | "wait" | "done"
          now, wake, cur,
          portOk,    \* environment: would an open succeed right now
          shut,      \* shutdown requested / handle dropped (stays true)
          attempts,  \* history: instants of the open attempts (last one only) and outcome
          lastDelay, \* the delay chosen for the current wait
          fails,     \* consecutive failed opens since the last success
          bud

vars == <<pc, now, wake, cur, portOk, shut, attempts, lastDelay, fails, bud>>

Min2(a, b) == IF a < b THEN a ELSE b
Pow2(n) == CASE n = 0 -> 1 [] n = 1 -> 2 [] n = 2 -> 4 [] n = 3 -> 8 [] n = 4 -> 16 [] OTHER -> 32

Init ==
  /\ pc = "open" /\ now = 0 /\ wake = 0 /\ cur = RMin /\ portOk \in BOOLEAN /\ shut = FALSE
  /\ attempts = 0 /\ lastDelay = 0 /\ fails = 0
  /\ bud = [ticks |-> 0, toggles |-> 0, faults |-> 0]

\* ---- the task
Open ==
  /\ pc = "open"
  /\ attempts' = attempts + 1
  /\ IF portOk
     THEN /\ pc' = "run" /\ cur' = RMin /\ fails' = 0 /\ UNCHANGED <<wake, lastDelay>>
     ELSE /\ pc' = "wait" /\ wake' = now + cur /\ lastDelay' = cur /\ cur' = Min2(2 * cur, RMax) /\ fails' = fails + 1
  /\ UNCHANGED <<now, portOk, shut, bud>>

\* the session notices shutdown / a dropped handle as soon as it is polled
SessionShutdown == /\ pc = "run" /\ shut /\ pc' = "done"
                   /\ UNCHANGED <<now, wake, cur, portOk, shut, attempts, lastDelay, fails, bud>>

\* the session ends with an error (bad frame, port failure): wait min, then open again
SessionDies ==
  /\ pc = "run" /\ ~shut /\ bud.faults < MaxFaults
  /\ pc' = "wait" /\ wake' = now + RMin /\ lastDelay' = RMin
  /\ bud' = [bud EXCEPT !.faults = @ + 1]
  /\ UNCHANGED <<now, cur, portOk, shut, attempts, fails>>

WaitOver == /\ pc = "wait" /\ now >= wake /\ (WaitRule = "plain" \/ ~shut)
            /\ pc' = IF shut THEN "done" ELSE "open"
            /\ UNCHANGED <<now, wake, cur, portOk, shut, attempts, lastDelay, fails, bud>>

WaitShutdown == /\ pc = "wait" /\ shut /\ WaitRule = "sleep_for" /\ pc' = "done"
                /\ UNCHANGED <<now, wake, cur, portOk, shut, attempts, lastDelay, fails, bud>>

TaskStep == Open \/ SessionShutdown \/ SessionDies \/ WaitOver \/ WaitShutdown

\* ---- the environment (only when the task has nothing to do at this instant, except for shutdown which may come any time)
TaskIdle == ~(ENABLED Open \/ ENABLED SessionShutdown \/ ENABLED WaitOver \/ ENABLED WaitShutdown)
Tick == /\ TaskIdle /\ bud.ticks < MaxTicks /\ now' = now + 1 /\ bud' = [bud EXCEPT !.ticks = @ + 1]
        /\ UNCHANGED <<pc, wake, cur, portOk, shut, attempts, lastDelay, fails>>
Toggle == /\ bud.toggles < MaxToggles /\ portOk' = ~portOk /\ bud' = [bud EXCEPT !.toggles = @ + 1]
          /\ UNCHANGED <<pc, now, wake, cur, shut, attempts, lastDelay, fails>>
Shutdown == /\ ~shut /\ shut' = TRUE
            /\ UNCHANGED <<pc, now, wake, cur, portOk, attempts, lastDelay, fails, bud>>

Next == TaskStep \/ Tick \/ Toggle \/ Shutdown
Spec == Init /\ [][Next]_vars /\ WF_vars(TaskStep)

\* ---- C14
DelayBounds == cur >= RMin /\ cur <= RMax /\ (pc = "wait" => lastDelay >= RMin /\ lastDelay <= RMax)
\* the k-th consecutive failure waits min * 2^(k-1) capped at max
ClosedForm == (pc = "wait" /\ fails > 0 /\ fails <= 5 /\ lastDelay # RMin) => lastDelay = Min2(RMin * Pow2(fails - 1), RMax)
\* no attempt before the announced delay is over
NeverEarly == [][(pc = "wait" /\ pc' = "open") => now >= wake]_vars
\* a successful open restarts the sequence
ResetOnSuccess == [][(pc = "open" /\ pc' = "run") => cur' = RMin]_vars
\* ---- C13 / C15-like: shutdown ends the task from every state, without waiting for a timer
ShutdownHonoured == shut ~> (pc = "done")
ShutdownPrompt == [][(shut /\ pc = "wait" /\ now < wake) => (pc' # "wait" \/ now' = now)]_vars
DoneIsFinal == [][pc = "done" => pc' = "done"]_vars
=============================================================================
