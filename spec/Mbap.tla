------------------------------- MODULE Mbap -------------------------------
(***************************************************************************)
(* MBAP framing (Modbus TCP / TLS), C05.  Defined on the byte stream only, *)
(* so it is segmentation-independent by construction.                      *)
(***************************************************************************)
EXTENDS Naturals, Sequences

MbapHeaderLen == 7
MbapMaxLenField == 254       \* unit id + 253 byte PDU
MbapMaxFrame == 260

LOCAL H(x) == (x \div 256) % 256
LOCAL L(x) == x % 256

MbapFrame(tx, unit, pdu) ==
  <<H(tx), L(tx), 0, 0, H(Len(pdu) + 1), L(Len(pdu) + 1), unit>> \o pdu

(***************************************************************************)
(* What is at the head of the unconsumed stream `buf`:                     *)
(*   st = "more"   nothing can be decided yet                              *)
(*   st = "err"    malformed header: the session must end                  *)
(*   st = "frame"  a complete frame; `used` bytes are consumed             *)
(***************************************************************************)
MbapHead(buf) ==
  LET More == [st |-> "more", kind |-> "", tx |-> 0, unit |-> 0, pdu |-> <<>>, used |-> 0]
      Err(k) == [st |-> "err", kind |-> k, tx |-> 0, unit |-> 0, pdu |-> <<>>, used |-> MbapHeaderLen]
  IN
  IF Len(buf) < MbapHeaderLen THEN More
  ELSE
  LET tx == buf[1] * 256 + buf[2]
      proto == buf[3] * 256 + buf[4]
      len == buf[5] * 256 + buf[6]
  IN
  IF proto # 0 THEN Err("UnknownProtocolId")
  ELSE IF len > MbapMaxLenField THEN Err("FrameLengthTooBig")
  ELSE IF len = 0 THEN Err("MbapLengthZero")
  ELSE IF Len(buf) < 6 + len THEN More
  ELSE [st |-> "frame", kind |-> "", tx |-> tx, unit |-> buf[7],
        pdu |-> SubSeq(buf, 8, 6 + len), used |-> 6 + len]

(* a well-formed MBAP frame as emitted by the library *)
MbapWellFormed(bytes) ==
  /\ Len(bytes) >= 8
  /\ Len(bytes) <= MbapMaxFrame
  /\ bytes[3] = 0 /\ bytes[4] = 0
  /\ bytes[5] * 256 + bytes[6] = Len(bytes) - 6
=============================================================================
