------------------------ MODULE RtuServerTaskTrace ------------------------
(***************************************************************************)
(* The RTU server task (serial::server::RtuServerTask::run) and its trace  *)
(* validation: the port open / re-open loop around the server session,     *)
(* with the retry strategy (C14: failed open -> doubling capped delay,     *)
(* session error -> min delay, reset after a successful open) and the      *)
(* session behaviour itself (C01 / C02 / C06 / C17 through ServerRef).     *)
(* The harness installs a port opener (verif-hooks) whose outcome the      *)
(* script controls, and runs the production task under virtual time.       *)
(***************************************************************************)
EXTENDS ServerRef, Json, IOUtils, TLC, SequencesExt

Rec == ndJsonDeserialize(IOEnv.TRACE)

VARIABLES l, cfg, db, buf, exp, st, now, wake, rcur, portOk, hnd,
          stray   \* bytes sent into the port after its session died (never read, gone when the port is closed)
vars == <<l, cfg, db, buf, exp, st, now, wake, rcur, portOk, hnd, stray>>

NoCfg == [framing |-> "rtu", units |-> {}, seed |-> 0, auth |-> [policy |-> "none", seed |-> 0, role |-> ""], holes |-> {},
          rmin |-> 1, rmax |-> 1]

TraceInit ==
  /\ l = 1 /\ cfg = NoCfg /\ db = EmptyDb /\ buf = <<>> /\ exp = <<>> /\ st = "none"
  /\ now = 0 /\ wake = 0 /\ rcur = 1 /\ portOk = TRUE /\ hnd = TRUE /\ stray = 0

Ev == Rec[l]
Is(name) == l <= Len(Rec) /\ Ev.e = name
Step == l' = l + 1
SeqToSet(s) == {s[i] : i \in 1..Len(s)}
OpenEv == [e |-> "open"]

\* the task starts by trying to open the port
OnCfg ==
  /\ Is("cfg") /\ exp = <<>> /\ st \in {"none", "done"}
  /\ cfg' = [framing |-> "rtu", units |-> SeqToSet(Ev.units), seed |-> Ev.seed,
             auth |-> [policy |-> "none", seed |-> 0, role |-> ""], holes |-> SeqToSet(Ev.holes),
             rmin |-> Ev.retry[1], rmax |-> Ev.retry[2]]
  /\ db' = EmptyDb /\ buf' = <<>> /\ st' = "closed" /\ now' = 0 /\ wake' = 0 /\ rcur' = Ev.retry[1]
  /\ portOk' = Ev.port /\ hnd' = TRUE /\ exp' = <<OpenEv>> /\ stray' = 0 /\ Step

\* the outcome of the next open attempts is the environment's choice
OnPort == Is("port") /\ portOk' = Ev.ok /\ UNCHANGED <<cfg, db, buf, exp, st, now, wake, rcur, hnd, stray>> /\ Step

Dead(reason) == st' = "closed" /\ wake' = now + cfg.rmin /\ stray' = 0      \* after_disconnect() = min

\* one attempt to open the port, at the instant the specification prescribes
OnOpen ==
  /\ Is("open") /\ exp # <<>> /\ Head(exp).e = "open" /\ st = "closed"
  /\ Ev.ok = portOk /\ Ev.t = now
  /\ stray' = 0
  /\ LET lost == IF Ev.lost > stray THEN Ev.lost - stray ELSE 0      \* sent before the session died, never read
         base == SubSeq(buf, 1, Len(buf) - Min2(lost, Len(buf)))
     IN
     IF portOk
     THEN \* reset on success; whatever the reader kept from the previous run may or may not survive
          /\ rcur' = cfg.rmin
          /\ \E keep \in {base, <<>>} :
               LET r == ProcessAll(cfg, db, keep, FALSE, <<>>) IN
                 /\ exp' = Tail(exp) \o SelectSeq(r.ev, LAMBDA x : x.e # "end")
                 /\ db' = r.db /\ buf' = r.buf
                 /\ IF r.dead THEN st' = "closed" /\ wake' = now + cfg.rmin ELSE st' = "run" /\ UNCHANGED wake
     ELSE \* k-th consecutive failure: min * 2^(k-1) capped at max
          /\ wake' = now + rcur /\ rcur' = Min2(2 * rcur, cfg.rmax)
          /\ exp' = Tail(exp) /\ buf' = base /\ UNCHANGED <<db, st>>
  /\ UNCHANGED <<cfg, now, portOk, hnd>> /\ Step

\* time passes; the next attempt is made exactly when the delay is over (never earlier)
OnTick ==
  /\ Is("tick") /\ exp = <<>>
  /\ now' = now + Ev.d
  /\ exp' = IF st = "closed" /\ now < wake /\ now + Ev.d >= wake THEN <<OpenEv>> ELSE exp
  /\ UNCHANGED <<cfg, db, buf, st, wake, rcur, portOk, hnd, stray>> /\ Step

OnRx ==
  /\ Is("rx") /\ exp = <<>>
  /\ IF st = "run"
     THEN LET r == ProcessAll(cfg, db, buf \o Ev.bytes, FALSE, <<>>) IN
            /\ exp' = SelectSeq(r.ev, LAMBDA x : x.e # "end") /\ db' = r.db /\ buf' = r.buf
            /\ IF r.dead THEN Dead("BadFrame") ELSE UNCHANGED <<st, wake, stray>>
     ELSE \* nobody reads the port while the task waits to re-open it: the bytes are lost
          /\ stray' = stray + Len(Ev.bytes) /\ UNCHANGED <<exp, db, buf, st, wake>>
  /\ UNCHANGED <<cfg, now, rcur, portOk, hnd>> /\ Step

OnTx == /\ Is("tx") /\ exp # <<>> /\ Head(exp).e = "tx" /\ Head(exp).bytes = Ev.bytes
        /\ exp' = Tail(exp) /\ UNCHANGED <<cfg, db, buf, st, now, wake, rcur, portOk, hnd, stray>> /\ Step
OnReads == /\ Is("reads") /\ exp # <<>> /\ Head(exp).e = "reads"
           /\ LET x == Head(exp) IN x.u = Ev.u /\ x.t = Ev.t /\ x.s = Ev.s /\ x.n = Ev.n /\ x.outs = Ev.outs
           /\ exp' = Tail(exp) /\ UNCHANGED <<cfg, db, buf, st, now, wake, rcur, portOk, hnd, stray>> /\ Step
OnWrite == /\ Is("write") /\ exp # <<>> /\ Head(exp).e = "write"
           /\ LET x == Head(exp) IN x.u = Ev.u /\ x.m = Ev.m /\ x.s = Ev.s /\ x.vals = Ev.vals /\ x.out = Ev.out /\ Ev.contig
           /\ exp' = Tail(exp) /\ UNCHANGED <<cfg, db, buf, st, now, wake, rcur, portOk, hnd, stray>> /\ Step

\* the port fails while the session is waiting for bytes
OnEof == /\ (Is("eof") \/ Is("rerr")) /\ exp = <<>>
         /\ IF st = "run" THEN Dead("Io") ELSE UNCHANGED <<st, wake, stray>>
         /\ UNCHANGED <<cfg, db, buf, exp, now, rcur, portOk, hnd>> /\ Step

\* shutdown / handle drop end the task from both states (running a session, waiting to re-open)
OnCmd ==
  /\ Is("cmd") /\ exp = <<>>
  /\ CASE Ev.kind = "decode" -> UNCHANGED <<exp, st, hnd>>
       [] Ev.kind \in {"shutdown", "drop", "final_shutdown"} ->
            /\ IF st \in {"run", "closed"} /\ hnd THEN exp' = <<[e |-> "task_end"]>> /\ st' = "ending" ELSE UNCHANGED <<exp, st>>
            /\ hnd' = IF Ev.kind = "drop" THEN FALSE ELSE hnd
  /\ UNCHANGED <<cfg, db, buf, now, wake, rcur, portOk, stray>> /\ Step

OnTaskEnd == /\ Is("task_end") /\ exp # <<>> /\ Head(exp).e = "task_end" /\ st = "ending"
             /\ exp' = Tail(exp) /\ st' = "done"
             /\ UNCHANGED <<cfg, db, buf, now, wake, rcur, portOk, hnd, stray>> /\ Step

OnQuiet == /\ Is("q") /\ exp = <<>> /\ UNCHANGED <<cfg, db, buf, exp, st, now, wake, rcur, portOk, hnd, stray>> /\ Step

TraceNext == OnCfg \/ OnPort \/ OnOpen \/ OnTick \/ OnRx \/ OnTx \/ OnReads \/ OnWrite \/ OnEof \/ OnCmd \/ OnTaskEnd \/ OnQuiet
TraceSpec == TraceInit /\ [][TraceNext]_vars

DelayBounds == rcur >= cfg.rmin /\ rcur <= Max2(cfg.rmin, cfg.rmax)

Furthest ==
  \/ TLCGet(1) >= l
  \/ /\ TLCSet(1, l)
     /\ TLCSet(2, [st |-> st, now |-> now, wake |-> wake, rcur |-> rcur, portOk |-> portOk,
                   exp |-> IF exp = <<>> THEN "none" ELSE ToJson(Head(exp)), buffered |-> Len(buf)])
TraceAccepted ==
  IF TLCGet(1) = Len(Rec) + 1 THEN TRUE
  ELSE PrintT(<<"REJECT", TLCGet(1), ToJson(TLCGet(2))>>) /\ FALSE
ASSUME TLCSet(1, 0) /\ TLCSet(2, "none")
=============================================================================
