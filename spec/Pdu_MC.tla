------------------------------- MODULE Pdu_MC -------------------------------
(***************************************************************************)
(* Coherence of the pure protocol operators (C03 / C04 / C01 design        *)
(* level): on a scaled universe TLC enumerates EVERY client request        *)
(* (valid and invalid) and every handler outcome and checks that           *)
(*   - the encoding of a valid request is parsed back by the server rules  *)
(*     to the same request (encoder and parser are written independently), *)
(*   - the reference server's reply decodes at the client to exactly what  *)
(*     the handlers supplied (values indexed from start / exception code), *)
(*   - an encoded request never exceeds the 253-byte PDU,                  *)
(*   - a request is valid iff it lies within the limits the property       *)
(*     lists (so "always rejected" = ~ClientRequestValid).                 *)
(* With Real = TRUE the same invariants are evaluated at the real          *)
(* constants on the boundary lattice only.                                 *)
(***************************************************************************)
EXTENDS ServerRef, TLC

CONSTANTS Real

VARIABLES r, holes
vars == <<r, holes>>

RECURSIVE SeqsOfLen(_, _)
SeqsOfLen(S, n) == IF n = 0 THEN {<<>>} ELSE {Append(q, x) : q \in SeqsOfLen(S, n - 1), x \in S}

Limit(fc) == CASE fc \in {1, 2} -> MaxReadBits [] fc \in {3, 4} -> MaxReadRegs [] fc = 15 -> MaxWriteCoils
               [] fc = 16 -> MaxWriteRegs [] OTHER -> 1

Req(fc, s, c, v) == [fc |-> fc, unit |-> 1, start |-> s, count |-> c, values |-> v]

ScaledRequests ==
  UNION {
    {Req(fc, s, c, <<>>) : fc \in {1, 2, 3, 4}, s \in 0..AddrSpace, c \in 0..4},
    {Req(5, s, 1, <<b>>) : s \in 0..AddrSpace, b \in {0, 1}},
    {Req(6, s, 1, <<v>>) : s \in 0..AddrSpace, v \in {0, 1, 255, 256, 65535}},
    UNION {{Req(15, s, c, v) : s \in 0..AddrSpace, v \in SeqsOfLen({0, 1}, c)} : c \in 0..4},
    UNION {{Req(16, s, c, v) : s \in 0..AddrSpace, v \in SeqsOfLen({0, 258, 65535}, c)} : c \in 0..3}
  }

Ones(n) == [i \in 1..n |-> 1]
RealRequests ==
  UNION {UNION {{Req(fc, s, c, IF fc \in {15, 16} THEN Ones(c) ELSE <<>>)
                  : s \in {0, 1, 65535, 65536} \cup {x \in {65536 - c, 65537 - c} : x >= 0}}
                : c \in {0, 1, Limit(fc) - 1, Limit(fc), Limit(fc) + 1, Limit(fc) + 8}}
         : fc \in {1, 2, 3, 4, 15, 16}}

HoleChoices == {{}, {[u |-> 1, t |-> 0, a |-> 1, code |-> 2]}, {[u |-> 1, t |-> 2, a |-> 0, code |-> 4]},
                {[u |-> 1, t |-> 1, a |-> 2, code |-> 11], [u |-> 1, t |-> 3, a |-> 1, code |-> 200]}}

Init == /\ r \in (IF Real THEN RealRequests ELSE ScaledRequests)
        /\ holes \in (IF Real THEN {{}} ELSE HoleChoices)
Next == UNCHANGED vars
Spec == Init /\ [][Next]_vars

Valid == ClientRequestValid(r)
Cfg == [framing |-> "tcp", units |-> {1}, seed |-> 3, auth |-> [policy |-> "none", seed |-> 0, role |-> ""], holes |-> holes]

\* what the property text says is valid, written out independently of ClientRequestValid
InLimits ==
  CASE r.fc \in {1, 2, 3, 4, 15, 16} -> r.count >= 1 /\ r.start + r.count <= AddrSpace /\ r.count <= Limit(r.fc)
                                         /\ (r.fc \in {15, 16} => Len(r.values) = r.count)
    [] OTHER -> r.start < AddrSpace
ValidIffInLimits == Valid <=> InLimits

EncodeParsesBack ==
  Valid => LET p == ParseRequest(EncodeRequest(r)) IN
             /\ p.tag = "ok" /\ p.fc = r.fc /\ p.start = r.start /\ p.count = r.count
             /\ (r.fc \notin ReadFcs => p.values = r.values)

PduBounded == Valid => Len(EncodeRequest(r)) <= 253

\* the server's reply to the encoded request decodes to exactly what the handlers supplied
ReplyDecodes ==
  Valid => LET p == ParseRequest(EncodeRequest(r))
               x == ExecOnUnit(Cfg, EmptyDb, 1, p)
               d == DecodeResponse(r, x.pdu)
               h == FirstHole(Cfg, 1, TypeOfFc(r.fc), r.start, r.count)
           IN IF h.code # 0 THEN d.class = "exc" /\ d.code = h.code
              ELSE /\ d.class = "ok"
                   /\ (r.fc \in ReadFcs => d.values = x.ev[1].outs)
                   /\ Len(x.pdu) <= 253

\* an invalid request, were it transmitted anyway, is never executed by the server
InvalidNeverExecuted ==
  (~Valid /\ r.fc \in {1, 2, 3, 4} /\ r.start <= 65535 /\ r.count <= 65535) =>
      ParseRequest(<<r.fc>> \o U16Bytes(r.start) \o U16Bytes(r.count)).tag = "invalid"
=============================================================================
