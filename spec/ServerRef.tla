----------------------------- MODULE ServerRef -----------------------------
(***************************************************************************)
(* The reference Modbus server of C01/C02/C08/C17 as pure operators:       *)
(* given the configuration, the application database and one received      *)
(* frame it yields the exact sequence of observable effects                *)
(* (authorization query, handler invocations, reply bytes) and the new     *)
(* database.  Both the explicit state machine (ServerSession.tla) and the  *)
(* trace specification (ServerSessionTrace.tla) are built on it.           *)
(*                                                                         *)
(* Application handlers are opaque to the library; the harness installs a  *)
(* programmable handler whose meaning is defined HERE (DefBit/DefReg,      *)
(* holes, overrides) and a programmable authorization policy               *)
(* (AuthDecision).                                                         *)
(*                                                                         *)
(* cfg = [framing: "tcp"|"rtu", units: SUBSET 0..255, seed: Nat,           *)
(*        auth: [policy: "none"|"allow"|"deny"|"readonly"|"hash", seed],   *)
(*        holes: set of [u, t, a, code]]                                   *)
(* db  = function <<unit, type, address>> -> value (written points only)   *)
(* point types: 0 coils, 1 discrete inputs, 2 holding, 3 input registers   *)
(***************************************************************************)
EXTENDS ModbusPdu, Mbap, Rtu

EmptyDb == [k \in {} |-> 0]

DefBit(seed, u, t, a) == IF ((a * 31 + u * 7 + t * 13 + seed) % 5) < 2 THEN 1 ELSE 0
DefReg(seed, u, t, a) == (a * 251 + u * 257 + t * 7919 + seed * 97) % 65536

Point(cfg, db, u, t, a) ==
  IF <<u, t, a>> \in DOMAIN db THEN db[<<u, t, a>>]
  ELSE IF t \in {0, 1} THEN DefBit(cfg.seed, u, t, a) ELSE DefReg(cfg.seed, u, t, a)

HolesIn(cfg, u, t, s, c) == {h \in cfg.holes : h.u = u /\ h.t = t /\ h.a >= s /\ h.a < s + c}

NoHole == [u |-> 0, t |-> 0, a |-> AddrSpace, code |-> 0]

(* the lowest failing address in a range, NoHole if none *)
FirstHole(cfg, u, t, s, c) ==
  LET hs == HolesIn(cfg, u, t, s, c) IN
  IF hs = {} THEN NoHole ELSE CHOOSE h \in hs : \A g \in hs : h.a <= g.a

TypeOfFc(fc) == CASE fc \in {1, 5, 15} -> 0 [] fc = 2 -> 1 [] fc \in {3, 6, 16} -> 2 [] fc = 4 -> 3

Method(fc) == CASE fc = 1 -> "rc" [] fc = 2 -> "rdi" [] fc = 3 -> "rhr" [] fc = 4 -> "rir"
                [] fc = 5 -> "wsc" [] fc = 6 -> "wsr" [] fc = 15 -> "wmc" [] fc = 16 -> "wmr"

(* the quantity an authorization handler is shown: the range count, 0 for single writes *)
AuthCount(req) == IF req.fc \in {5, 6} THEN 0 ELSE req.count

AuthDecision(cfg, req, u) ==
  CASE cfg.auth.policy = "allow" -> TRUE
    [] cfg.auth.policy = "deny" -> FALSE
    [] cfg.auth.policy = "readonly" -> req.fc \in ReadFcs
    [] OTHER -> ((req.fc * 3 + u * 5 + req.start * 7 + AuthCount(req) * 11 + cfg.auth.seed) % 3) # 0

HasAuth(cfg) == cfg.auth.policy # "none"

IsBroadcast(cfg, unit) == cfg.framing = "rtu" /\ unit = 0

FrameBytes(cfg, tx, unit, pdu) ==
  IF cfg.framing = "tcp" THEN MbapFrame(tx, unit, pdu) ELSE RtuFrame(unit, pdu)

StreamHead(cfg, buf) == IF cfg.framing = "tcp" THEN MbapHead(buf) ELSE RtuHead("req", buf)

ApplyWrite(db, u, t, s, vals) ==
  LET new == {<<u, t, s + i - 1>> : i \in 1..Len(vals)} IN
  [k \in (DOMAIN db) \cup new |-> IF k \in new THEN vals[k[3] - s + 1] ELSE db[k]]

(***************************************************************************)
(* One valid request executed on one configured unit.                      *)
(* Reads query the addresses upward from the start and stop at the first   *)
(* one the handler refuses; writes are one invocation with exactly the     *)
(* addresses and values sent.                                              *)
(***************************************************************************)
ExecOnUnit(cfg, db, u, req) ==
  LET t == TypeOfFc(req.fc)
      h == FirstHole(cfg, u, t, req.start, req.count)
      failed == h.code # 0
  IN
  IF req.fc \in ReadFcs THEN
    LET n == IF failed THEN h.a - req.start + 1 ELSE req.count
        outs == [i \in 1..n |-> IF failed /\ i = n THEN 1000 + h.code
                                ELSE Point(cfg, db, u, t, req.start + i - 1)]
    IN [ev |-> <<[e |-> "reads", u |-> u, t |-> t, s |-> req.start, n |-> n, outs |-> outs]>>,
        db |-> db,
        pdu |-> IF failed THEN ExceptionPdu(req.fc, h.code) ELSE ReadReplyPdu(req.fc, outs)]
  ELSE
    [ev |-> <<[e |-> "write", u |-> u, m |-> Method(req.fc), s |-> req.start,
               vals |-> req.values, out |-> h.code]>>,
     db |-> IF failed THEN db ELSE ApplyWrite(db, u, t, req.start, req.values),
     pdu |-> IF failed THEN ExceptionPdu(req.fc, h.code) ELSE WriteReplyPdu(req)]

(* ascending sequence of a finite set of naturals *)
RECURSIVE SortedSeq(_)
SortedSeq(S) == IF S = {} THEN <<>>
                ELSE LET m == CHOOSE x \in S : \A y \in S : x <= y IN <<m>> \o SortedSeq(S \ {m})

RECURSIVE BroadcastExec(_, _, _, _, _)
BroadcastExec(cfg, db, us, req, acc) ==
  IF us = <<>> THEN [ev |-> acc, db |-> db]
  ELSE LET r == ExecOnUnit(cfg, db, Head(us), req)
       IN BroadcastExec(cfg, r.db, Tail(us), req, acc \o r.ev)

(***************************************************************************)
(* HandleFrame: the reference reaction to one well-framed request.         *)
(*  - an empty body is never answered;                                     *)
(*  - a frame for an address this server does not own is not answered      *)
(*    (C17), except that a well-formed request is first shown to the       *)
(*    authorization handler, whose veto is answered with exception 01      *)
(*    (C01's carve-out, C08);                                              *)
(*  - RTU unit 0 is broadcast: writes reach every unit once, in unit       *)
(*    order, nothing is ever answered, reads are ignored;                  *)
(*  - unknown function -> 01, invalid / over limit -> 03, deny -> 01.      *)
(***************************************************************************)
\* does the server under observation validate the byte-count field of write-multiple requests (see
\* ModbusPdu!WriteByteCountFieldDisagrees)?  A configuration record without the field means: it does not (the code).
StrictBC(cfg) == "strictBC" \in DOMAIN cfg /\ cfg.strictBC

HandleFrame(cfg, db, fr) ==
  LET req == LET p == ParseRequest(fr.pdu)
             IN IF StrictBC(cfg) /\ WriteByteCountFieldDisagrees(fr.pdu) THEN [p EXCEPT !.tag = "invalid"] ELSE p
      bc == IsBroadcast(cfg, fr.unit)
      mine == fr.unit \in cfg.units
      Tx(pdu) == <<[e |-> "tx", bytes |-> FrameBytes(cfg, fr.tx, fr.unit, pdu)]>>
      Nothing == [ev |-> <<>>, db |-> db]
  IN
  CASE req.tag = "empty" -> Nothing
    [] req.tag = "unknownfc" ->
         IF mine /\ ~bc THEN [ev |-> Tx(ExceptionPdu(req.fc, ExIllegalFunction)), db |-> db] ELSE Nothing
    [] req.tag = "invalid" ->
         IF mine /\ ~bc THEN [ev |-> Tx(ExceptionPdu(req.fc, ExIllegalDataValue)), db |-> db] ELSE Nothing
    [] req.tag = "ok" ->
         LET allowed == IF HasAuth(cfg) THEN AuthDecision(cfg, req, fr.unit) ELSE TRUE
             authEv == IF HasAuth(cfg)
                       THEN <<[e |-> "auth", m |-> Method(req.fc), u |-> fr.unit, s |-> req.start,
                               c |-> AuthCount(req), d |-> allowed]>>
                       ELSE <<>>
         IN
         IF ~allowed THEN
              [ev |-> authEv \o (IF bc THEN <<>> ELSE Tx(ExceptionPdu(req.fc, ExIllegalFunction))), db |-> db]
         ELSE IF bc THEN
              IF req.fc \in ReadFcs THEN [ev |-> authEv, db |-> db]
              ELSE LET r == BroadcastExec(cfg, db, SortedSeq(cfg.units), req, <<>>)
                   IN [ev |-> authEv \o r.ev, db |-> r.db]
         ELSE IF ~mine THEN [ev |-> authEv, db |-> db]
         ELSE LET r == ExecOnUnit(cfg, db, fr.unit, req)
              IN [ev |-> authEv \o r.ev \o Tx(r.pdu), db |-> r.db]

DropN(s, n) == SubSeq(s, n + 1, Len(s))

(***************************************************************************)
(* Everything a session does with the bytes it has: frames are handled in  *)
(* order until the stream needs more bytes or carries a malformed frame,   *)
(* which ends the session (nothing after it is processed).  If writing is  *)
(* broken (wfail) the first reply ends the session with an I/O error       *)
(* instead.                                                                *)
(***************************************************************************)
RECURSIVE ProcessAll(_, _, _, _, _)
ProcessAll(cfg, db, buf, wfail, acc) ==
  LET h == StreamHead(cfg, buf) IN
  CASE h.st = "more" -> [ev |-> acc, db |-> db, buf |-> buf, dead |-> FALSE]
    [] h.st = "err" -> [ev |-> acc \o <<[e |-> "end", reason |-> "BadFrame"]>>, db |-> db,
                        buf |-> DropN(buf, h.used), dead |-> TRUE]
    [] h.st = "frame" ->
         LET r == HandleFrame(cfg, db, h)
             rest == DropN(buf, h.used)
             hasTx == \E i \in 1..Len(r.ev) : r.ev[i].e = "tx"
         IN IF wfail /\ hasTx
            THEN [ev |-> acc \o SelectSeq(r.ev, LAMBDA x : x.e # "tx") \o <<[e |-> "end", reason |-> "Io"]>>,
                  db |-> r.db, buf |-> rest, dead |-> TRUE]
            ELSE ProcessAll(cfg, r.db, rest, wfail, acc \o r.ev)

\* is there, among the frames the session will handle from these bytes, one whose outcome C01 / C02 leave open
RECURSIVE AnyOpenFrame(_, _)
AnyOpenFrame(cfg, buf) ==
  LET h == StreamHead(cfg, buf) IN
  IF h.st = "frame" THEN WriteByteCountFieldDisagrees(h.pdu) \/ AnyOpenFrame(cfg, DropN(buf, h.used)) ELSE FALSE

=============================================================================
