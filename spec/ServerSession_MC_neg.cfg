SPECIFICATION Spec
CONSTANTS
  MaxReadBits = 3
  MaxReadRegs = 2
  MaxWriteCoils = 3
  MaxWriteRegs = 2
  AddrSpace = 8
  Units = {1, 2}
  ProbeUnits = {0, 1, 2, 3}
  Fcs = {1, 3, 5, 6, 15, 16, 7, 129}
  Bytes = {0, 1, 2, 255}
  TailBytes = {0, 1, 255}
  HoleSet <- HoleSetDef
  Policies = {"none", "hash", "deny", "readonly"}
  Framings = {"tcp", "rtu"}
  ErrorRepliesBeforeUnitLookup = TRUE
INVARIANTS OperationalMatchesReference OneReplyWhenAddressed ExceptionCodes SilentUnlessAddressed BroadcastNeverAnswered BroadcastOnceEach BroadcastReadsIgnored EmptyNeverAnswered CallsJustified NoEffectWithoutCall DenyHasNoEffect AuthBeforeEffect AuthExactlyOnceForWellFormed
CHECK_DEADLOCK FALSE
