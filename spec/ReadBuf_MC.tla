----------------------------- MODULE ReadBuf_MC -----------------------------
(***************************************************************************)
(* Operational model of the receive path shared by both roles (C05):       *)
(* ReadBuffer::read_some (reset when empty, shift when end = CAP, read     *)
(* into [end..CAP)) and the two-state MbapParser (Begin | Header(n)),      *)
(* checked against a scanner defined on the whole stream only, for EVERY   *)
(* way of splitting EVERY stream of up to MaxFrames frames into reads.     *)
(* Scaled: header = <<proto, len>>, body of len bytes (1..MaxLen),         *)
(* CAP = HDR + MaxLen exactly as 260 = 7 + 253.                            *)
(*                                                                         *)
(* ShiftRule = "end" is the code; "full" (shift only when the unconsumed   *)
(* data fills the buffer) is the historical bug class and the negative     *)
(* control: TLC must refute NoZeroSpaceRead with it.                       *)
(***************************************************************************)
EXTENDS Naturals, Sequences, FiniteSets, TLC

CONSTANTS MaxLen, MaxFrames, ShiftRule

HDR == 2
CAP == HDR + MaxLen

Valid(n) == <<0, n>> \o [i \in 1..n |-> 7]
FrameKinds == {Valid(n) : n \in 1..MaxLen} \cup {<<1, 1, 7>>, <<0, 0>>, <<0, MaxLen + 1>> \o [i \in 1..(MaxLen + 1) |-> 7]}

RECURSIVE Streams(_)
Streams(k) == IF k = 0 THEN {<<>>} ELSE LET R == Streams(k - 1) IN R \cup {r \o f : r \in R, f \in FrameKinds}

(* reference: frames and terminal status of a whole stream *)
RECURSIVE Scan(_, _)
Scan(st, acc) ==
  IF Len(st) < HDR THEN [frames |-> acc, status |-> "more"]
  ELSE IF st[1] # 0 THEN [frames |-> acc, status |-> "err"]
  ELSE IF st[2] > MaxLen \/ st[2] = 0 THEN [frames |-> acc, status |-> "err"]
  ELSE IF Len(st) < HDR + st[2] THEN [frames |-> acc, status |-> "more"]
  ELSE Scan(SubSeq(st, HDR + st[2] + 1, Len(st)), Append(acc, SubSeq(st, HDR + 1, HDR + st[2])))

VARIABLES stream,    \* the whole stream the peer sends (chosen initially)
          sent,      \* how many bytes have been handed to read() so far
          mem,       \* the CAP-byte array
          begin, end,
          pst,       \* parser state: 0 = Begin, n > 0 = Header with body length n
          frames,    \* frames emitted so far
          status,    \* "run" | "err" | "eof" (read returned 0)
          zero       \* a read was issued with no free space

vars == <<stream, sent, mem, begin, end, pst, frames, status, zero>>

Init ==
  /\ stream \in Streams(MaxFrames)
  /\ sent = 0 /\ mem = [i \in 1..CAP |-> 0] /\ begin = 0 /\ end = 0 /\ pst = 0
  /\ frames = <<>> /\ status = "run" /\ zero = FALSE

Avail == end - begin
Byte(i) == mem[begin + i]          \* i-th unconsumed byte, 1-based

(* MbapParser::parse, one loop iteration that makes progress *)
ParseHeader ==
  /\ status = "run" /\ pst = 0 /\ Avail >= HDR
  /\ IF Byte(1) # 0 \/ Byte(2) > MaxLen \/ Byte(2) = 0
     THEN status' = "err" /\ UNCHANGED pst
     ELSE pst' = Byte(2) /\ UNCHANGED status
  /\ begin' = begin + HDR
  /\ UNCHANGED <<stream, sent, mem, end, frames, zero>>

ParseBody ==
  /\ status = "run" /\ pst > 0 /\ Avail >= pst
  /\ frames' = Append(frames, [i \in 1..pst |-> Byte(i)])
  /\ begin' = begin + pst /\ pst' = 0
  /\ UNCHANGED <<stream, sent, mem, end, status, zero>>

NeedMore == status = "run" /\ ((pst = 0 /\ Avail < HDR) \/ (pst > 0 /\ Avail < pst))

(* ReadBuffer::read_some with a socket that delivers k bytes (at most the free space) *)
Read(k) ==
  /\ NeedMore /\ sent < Len(stream)
  /\ LET b0 == IF begin = end THEN 0 ELSE begin
         e0 == IF begin = end THEN 0 ELSE end
         doShift == IF ShiftRule = "end" THEN e0 = CAP ELSE (e0 - b0) = CAP
         b1 == IF doShift THEN 0 ELSE b0
         e1 == IF doShift THEN e0 - b0 ELSE e0
         m1 == IF doShift THEN [i \in 1..CAP |-> IF i <= e0 - b0 THEN mem[b0 + i] ELSE 0] ELSE mem
         free == CAP - e1
         n == IF k < free THEN (IF k < Len(stream) - sent THEN k ELSE Len(stream) - sent)
              ELSE (IF free < Len(stream) - sent THEN free ELSE Len(stream) - sent)
     IN /\ zero' = (zero \/ free = 0)
        /\ IF free = 0 THEN status' = "eof" /\ UNCHANGED <<mem, sent>> /\ begin' = b1 /\ end' = e1
           ELSE /\ mem' = [i \in 1..CAP |-> IF i > e1 /\ i <= e1 + n THEN stream[sent + (i - e1)] ELSE m1[i]]
                /\ sent' = sent + n /\ begin' = b1 /\ end' = e1 + n /\ UNCHANGED status
  /\ UNCHANGED <<stream, pst, frames>>

Next == ParseHeader \/ ParseBody \/ \E k \in 1..(CAP + 1) : Read(k)
Spec == Init /\ [][Next]_vars

(***************************************************************************)
IsPrefix(a, b) == Len(a) <= Len(b) /\ SubSeq(b, 1, Len(a)) = a
Ref == Scan(stream, <<>>)
RefSoFar == Scan(SubSeq(stream, 1, sent), <<>>)

\* the frames processed are those of the stream, in order, whatever the chunking
FramesArePrefix == IsPrefix(frames, Ref.frames)
\* nothing is lost or re-read: once nothing more can be done, exactly the frames of the delivered prefix were emitted
Complete == (status = "run" /\ NeedMore /\ ~ENABLED ParseHeader /\ ~ENABLED ParseBody) => frames = RefSoFar.frames
\* a malformed header ends the session exactly where the stream is malformed
ErrorIffMalformed == (status = "err") => (RefSoFar.status = "err" /\ frames = RefSoFar.frames)
NoMissedError == (status = "run" /\ NeedMore) => RefSoFar.status = "more"
\* never a read with zero free space while more data is needed (the spurious-disconnect class)
NoZeroSpaceRead == ~zero /\ status # "eof"
Bounds == begin <= end /\ end <= CAP
=============================================================================
