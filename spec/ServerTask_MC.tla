---------------------------- MODULE ServerTask_MC ----------------------------
(***************************************************************************)
(* Design-level model of the TCP/TLS server task (C15) with its bounded    *)
(* queues: the handle's command queue, one command queue per session, the  *)
(* close-notification queue, the session tracker with eviction of the      *)
(* oldest session, and sessions that may stop draining their queue (a peer *)
(* that does not read its replies blocks the session in its write).        *)
(*                                                                         *)
(* FanOut = "try"   the decode-level change is offered to each session     *)
(*                  (tcp/server.rs after fix 1b204a7)                      *)
(* FanOut = "await" the server task awaits each session's queue (the       *)
(*                  pinned tree): negative control -- TLC must find the    *)
(*                  behaviour in which shutdown is never honoured (F14).   *)
(***************************************************************************)
EXTENDS Naturals, Sequences, FiniteSets, TLC

CONSTANTS MaxSessions, MaxConns, QCap, SCap, CCap, MaxDecodes, MaxCloses, FanOut

VARIABLES tracker,   \* ids in age order (the senders the server task holds)
          live,      \* sessions whose task is still running
          blocked,   \* sessions that do not poll their command queue (stuck in a write)
          sq,        \* id -> number of commands queued for that session
          srvq,      \* the handle's queue towards the server task
          closeq,    \* ids whose close notification is queued
          closing,   \* sessions that have ended and are waiting to queue their notification
          pc,        \* "select" | "fanout" | "done"
          todo,      \* sessions still to be served in the current fan-out
          nextId, handle, decodes, shutReq,
          closes     \* how many peers have closed their connection so far (budget)

vars == <<tracker, live, blocked, sq, srvq, closeq, closing, pc, todo, nextId, handle, decodes, shutReq, closes>>

M == IF MaxSessions = 0 THEN 1 ELSE MaxSessions
Ids == 0..(MaxConns - 1)
SeqToSet(s) == {s[i] : i \in 1..Len(s)}

Init ==
  /\ tracker = <<>> /\ live = {} /\ blocked = {} /\ sq = [i \in Ids |-> 0]
  /\ srvq = <<>> /\ closeq = {} /\ closing = {} /\ pc = "select" /\ todo = <<>>
  /\ nextId = 0 /\ handle = TRUE /\ decodes = 0 /\ shutReq = FALSE /\ closes = 0

\* ---- the application, through the server handle
SendDecode == /\ handle /\ decodes < MaxDecodes /\ Len(srvq) < SCap
              /\ srvq' = Append(srvq, "dec") /\ decodes' = decodes + 1
              /\ UNCHANGED <<tracker, live, blocked, sq, closeq, closing, pc, todo, nextId, handle, shutReq, closes>>
SendShutdown == /\ handle /\ ~shutReq /\ Len(srvq) < SCap
                /\ srvq' = Append(srvq, "shut") /\ shutReq' = TRUE
                /\ UNCHANGED <<tracker, live, blocked, sq, closeq, closing, pc, todo, nextId, handle, decodes, closes>>
DropHandle == /\ handle /\ handle' = FALSE /\ shutReq' = TRUE
              /\ UNCHANGED <<tracker, live, blocked, sq, srvq, closeq, closing, pc, todo, nextId, decodes, closes>>

\* ---- peers
PeerStopsReading(i) == /\ i \in live /\ i \notin blocked /\ blocked = {} /\ blocked' = {i}
                       /\ UNCHANGED <<tracker, live, sq, srvq, closeq, closing, pc, todo, nextId, handle, decodes, shutReq, closes>>

\* the peer closes its connection: the session sees EOF, ends and notifies; it stays in the tracker until the server
\* task has taken the notification (so a dead session can still be "the oldest" and be evicted in place of a live one --
\* the tracker then holds fewer live sessions than allowed, never more)
PeerCloses(i) == /\ i \in live /\ i \notin blocked /\ closes < MaxCloses
                 /\ live' = live \ {i} /\ closing' = closing \cup {i} /\ closes' = closes + 1
                 /\ UNCHANGED <<tracker, blocked, sq, srvq, closeq, pc, todo, nextId, handle, decodes, shutReq>>

\* ---- the server task (tcp::server::ServerTask::run)
Accept ==
  /\ pc = "select" /\ nextId < MaxConns
  /\ LET full == Len(tracker) >= M
         t2 == (IF full THEN Tail(tracker) ELSE tracker) \o <<nextId>>
     IN tracker' = t2
  /\ live' = live \cup {nextId} /\ nextId' = nextId + 1
  /\ UNCHANGED <<blocked, sq, srvq, closeq, closing, pc, todo, handle, decodes, shutReq, closes>>

RecvCommand ==
  /\ pc = "select" /\ srvq # <<>>
  /\ srvq' = Tail(srvq)
  /\ IF Head(srvq) = "shut" THEN pc' = "done" /\ tracker' = <<>> /\ todo' = <<>>
     ELSE pc' = "fanout" /\ todo' = tracker /\ UNCHANGED tracker
  /\ UNCHANGED <<live, blocked, sq, closeq, closing, nextId, handle, decodes, shutReq, closes>>

HandleGone ==
  /\ pc = "select" /\ ~handle /\ srvq = <<>>
  /\ pc' = "done" /\ tracker' = <<>>
  /\ UNCHANGED <<live, blocked, sq, srvq, closeq, closing, todo, nextId, handle, decodes, shutReq, closes>>

RecvClose ==
  /\ pc = "select" /\ closeq # {}
  /\ \E i \in closeq : closeq' = closeq \ {i} /\ tracker' = SelectSeq(tracker, LAMBDA x : x # i)
  /\ UNCHANGED <<live, blocked, sq, srvq, closing, pc, todo, nextId, handle, decodes, shutReq, closes>>

\* apply_command: forward the change to every tracked session
Fanout ==
  /\ pc = "fanout"
  /\ IF todo = <<>> THEN pc' = "select" /\ UNCHANGED <<todo, sq>>
     ELSE LET i == Head(todo) IN
          IF sq[i] < QCap THEN sq' = [sq EXCEPT ![i] = @ + 1] /\ todo' = Tail(todo) /\ UNCHANGED pc
          ELSE IF FanOut = "try" THEN todo' = Tail(todo) /\ UNCHANGED <<sq, pc>>      \* offered, not taken
          ELSE FALSE                                                                    \* awaits the full queue
  /\ UNCHANGED <<tracker, live, blocked, srvq, closeq, closing, nextId, handle, decodes, shutReq, closes>>

ServerStep == Accept \/ RecvCommand \/ HandleGone \/ RecvClose \/ Fanout

\* ---- a session task
Tracked(i) == i \in SeqToSet(tracker)
SessionDrain(i) == /\ i \in live /\ i \notin blocked /\ sq[i] > 0
                   /\ sq' = [sq EXCEPT ![i] = @ - 1]
                   /\ UNCHANGED <<tracker, live, blocked, srvq, closeq, closing, pc, todo, nextId, handle, decodes, shutReq, closes>>
\* its sender is gone (evicted, server ended): commands.recv() returns None once the queue is drained
SessionEnds(i) == /\ i \in live /\ i \notin blocked /\ sq[i] = 0 /\ ~Tracked(i) /\ ~(pc = "fanout" /\ i \in SeqToSet(todo))
                  /\ live' = live \ {i} /\ closing' = closing \cup {i}
                  /\ UNCHANGED <<tracker, blocked, sq, srvq, closeq, pc, todo, nextId, handle, decodes, shutReq, closes>>
\* notify_close.send(id).await (dropped silently once the server task is gone)
SessionNotifies(i) == /\ i \in closing
                      /\ \/ pc = "done" /\ UNCHANGED closeq
                         \/ pc # "done" /\ Cardinality(closeq) < CCap /\ closeq' = closeq \cup {i}
                      /\ closing' = closing \ {i}
                      /\ UNCHANGED <<tracker, live, blocked, sq, srvq, pc, todo, nextId, handle, decodes, shutReq, closes>>
SessionStep(i) == SessionDrain(i) \/ SessionEnds(i) \/ SessionNotifies(i)

Next == SendDecode \/ SendShutdown \/ DropHandle \/ (\E i \in Ids : PeerStopsReading(i)) \/ (\E i \in Ids : PeerCloses(i)) \/ ServerStep
        \/ (\E i \in Ids : SessionStep(i))

Spec == Init /\ [][Next]_vars /\ WF_vars(ServerStep) /\ \A i \in Ids : WF_vars(SessionStep(i))

(***************************************************************************)
Bounded == Len(tracker) <= M
AgeOrdered == \A a, b \in 1..Len(tracker) : a < b => tracker[a] < tracker[b]
QueuesBounded == (\A i \in Ids : sq[i] <= QCap) /\ Len(srvq) <= SCap /\ Cardinality(closeq) <= CCap
\* shutting down or dropping the handle ends the server task (and with it every sender)...
ShutdownHonoured == shutReq ~> (pc = "done")
\* ...and every session that still polls its queue ends
SessionsClosed == (pc = "done") ~> (live \subseteq blocked)
=============================================================================
