---------------------------- MODULE RangeSummary ----------------------------
(***************************************************************************)
(* C03 quantifies over "all 2^32 AddressRange constructor arguments".      *)
(* The harness (e6_range) calls the public constructor with every          *)
(* (start, count) in u16 x u16 and records, per count, whether the         *)
(* accepted start addresses form an interval beginning at 0 and where it   *)
(* ends.  The recorded summary determines the accepted set completely;     *)
(* this module states what it must be for the set to equal                 *)
(*   { (s, c) : ModbusPdu!ValidRange(s, c) }  =  { c >= 1 /\ s + c <= A }  *)
(* (A = AddrSpace = 65536): every count 1..A-1 accepts exactly the starts  *)
(* 0..A-c, count 0 accepts nothing, and the constructed range carries the  *)
(* arguments unchanged.                                                    *)
(***************************************************************************)
EXTENDS ModbusPdu, Json, IOUtils, TLC

Rec == ndJsonDeserialize(IOEnv.TRACE)
VARIABLE l
Init == l = 1
Ev == Rec[l]

Judge ==
  /\ l <= Len(Rec) /\ Ev.e = "range_summary"
  /\ Ev.counts_with_any = AddrSpace - 1            \* every count 1 .. A-1 has accepted starts
  /\ Ev.noncontiguous_counts = 0                   \* ... forming an interval 0 .. last
  /\ Ev.last_start_plus_count = <<AddrSpace>>      \* ... with last + count = A, i.e. ValidRange's bound, for every count
  /\ Ev.zero_count_accepted = 0                    \* count 0 is never valid
  /\ Ev.field_mismatches = 0
  /\ l' = l + 1
Spec == Init /\ [][Judge]_l

\* the closed form agrees with ValidRange on a scaled address space (checked by TLC when AddrSpace is small)
ClosedFormMatchesValidRange ==
  AddrSpace > 64 \/ \A c \in 0..(AddrSpace - 1) :
      {s \in 0..(AddrSpace - 1) : ValidRange(s, c)} = IF c = 0 THEN {} ELSE 0..(AddrSpace - c)

Furthest == \/ TLCGet(1) >= l \/ TLCSet(1, l)
TraceAccepted == IF TLCGet(1) = Len(Rec) + 1 THEN TRUE ELSE PrintT(<<"REJECT", TLCGet(1), ToJson(Rec[TLCGet(1)])>>) /\ FALSE
ASSUME TLCSet(1, 0)
=============================================================================
