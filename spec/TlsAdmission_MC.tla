-------------------------- MODULE TlsAdmission_MC --------------------------
(***************************************************************************)
(* The admission reference checked against the statements of C09 over the  *)
(* whole configuration x peer grid (every fixture certificate, every set   *)
(* of offered versions).                                                   *)
(***************************************************************************)
EXTENDS TlsAdmission, TLC

VARIABLES cfg, peer
vars == <<cfg, peer>>

Certs == {"none", "client_operator", "client_viewer", "client_norole", "client_tworoles", "client_ca2_operator",
          "client_expired", "client_notyet", "ss_a", "ss_b", "ss_c", "ss_expired",
          "server", "server_othername", "server_ca2", "server_expired", "server_notyet"}

Init ==
  /\ cfg \in [mode : {"ca", "self"}, min : {12, 13}, authz : BOOLEAN, trust : {"ca1", "ca2", "ss_a", "ss_expired"},
              name : {"", "test.com"}]
  /\ peer \in [cert : Certs, versions : (SUBSET {12, 13}) \ {{}}]
Next == UNCHANGED vars
Spec == Init /\ [][Next]_vars

A == Admit(cfg, peer)

NeverBelowMin == A.ok => A.version >= cfg.min /\ A.version \in peer.versions
OnlyAuthenticated ==
  A.ok => /\ peer.cert # "none"
          /\ CertInfo(peer.cert).valid = "ok"
          /\ (cfg.mode = "ca" => CertInfo(peer.cert).issuer = cfg.trust)
          /\ (cfg.mode = "self" => peer.cert = cfg.trust)
          /\ ((cfg.mode = "ca" /\ cfg.name # "") => cfg.name \in CertInfo(peer.cert).names)
AlwaysWhenValidAndAtOrAboveMin ==
  (CertValid(cfg, peer.cert) /\ (\E v \in peer.versions : v >= cfg.min) /\ (cfg.authz => CertInfo(peer.cert).roles = 1)) => A.ok
RoleIsTheSingleExtension ==
  (A.ok /\ cfg.authz) => (CertInfo(peer.cert).roles = 1 /\ A.role = CertInfo(peer.cert).role)
=============================================================================
