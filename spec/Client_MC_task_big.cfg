SPECIFICATION SpecMC
CONSTANTS
  MaxReadBits = 3
  MaxReadRegs = 2
  MaxWriteCoils = 3
  MaxWriteRegs = 2
  AddrSpace = 8
  TxMod = 4
  Bug = "none"
  Mode = "task"
  NReq = 3
  MaxCmds = 3
  MaxPeer = 3
  MaxTicks = 4
  MaxAttempts = 2
  Cap = 2
  MaxTO = 2
  RMin = 1
  RMax = 2
  WithAbort = TRUE
INVARIANTS AtMostOnce NothingPendingAtEnd Conservation ShutdownOnlyWhenGone OneOutstanding CounterRule ListenerPathLegal FailFast ShutdownIsLast
PROPERTIES Classified OnlyMatchingCompletes TxAdvancesPerDequeue TimeoutNeverEarly NoLimitNeverDrops NoConnectWhileDisabled DelaysFollowStrategy AttemptNotBeforeWake DecodeUnobservable
CHECK_DEADLOCK FALSE
