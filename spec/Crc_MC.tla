------------------------------- MODULE Crc_MC -------------------------------
(***************************************************************************)
(* CRC-16/MODBUS detection lemma (C06), checked on the very operator the   *)
(* trace specifications use (Rtu!Crc16).  The CRC is affine over GF(2):    *)
(* crc(m xor e) = crc(m) xor s(e) with s(e) = crc(e) xor crc(0) for equal  *)
(* lengths.  If the syndromes of all single-bit errors of an N-byte frame  *)
(* are non-zero and pairwise distinct, every 1-bit and every 2-bit error   *)
(* on an N-byte frame changes the CRC.  Bursts of <= 16 bits are detected  *)
(* because the generator has degree 16 and a non-zero constant term        *)
(* (checked below on the table: entry 1 is the reflected polynomial with   *)
(* its top bit set and CrcTable[128] has bit 0 set).                       *)
(***************************************************************************)
EXTENDS Rtu, FiniteSets, TLC

CONSTANTS N       \* frame length in bytes (address + PDU), CRC excluded

Zero == [i \in 1..N |-> 0]
Pow(j) == CASE j = 0 -> 1 [] j = 1 -> 2 [] j = 2 -> 4 [] j = 3 -> 8 [] j = 4 -> 16 [] j = 5 -> 32 [] j = 6 -> 64 [] j = 7 -> 128
Unit(b) == [i \in 1..N |-> IF i = (b \div 8) + 1 THEN Pow(b % 8) ELSE 0]

C0 == Crc16(Zero)
SynSet == {Crc16(Unit(b)) ^^ C0 : b \in 0..(8 * N - 1)}

Lemma ==
  /\ PrintT(<<"CRC", "bits", 8 * N, "distinct_syndromes", Cardinality(SynSet)>>)
  /\ Cardinality(SynSet) = 8 * N          \* pairwise distinct  => all 2-bit errors detected
  /\ 0 \notin SynSet                      \* non-zero           => all 1-bit errors detected
  /\ CrcTable[1] = 49345 /\ CrcTable[128] = 40961   \* 0xC0C1, 0xA001: reflected 0x8005, degree 16, constant term 1
  /\ Crc16(<<42, 1, 0, 16, 0, 19>>) = 6522           \* the repository's own vector: 0x197A
  /\ Crc16(<<49, 50, 51, 52, 53, 54, 55, 56, 57>>) = 19255   \* published check value 0x4B37 for "123456789"

VARIABLE x
Init == x = 0
Next == UNCHANGED x
Spec == Init /\ [][Next]_x
=============================================================================
