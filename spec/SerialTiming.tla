---------------------------- MODULE SerialTiming ----------------------------
(***************************************************************************)
(* Beyond the listed properties: the silent interval on a serial line.     *)
(* Modbus over serial line separates frames by at least 3.5 character      *)
(* times; a character is 11 bits (start, 8 data, parity or stop, stop);    *)
(* above 19200 baud the interval is fixed at 1750 us (Modbus over serial   *)
(* line V1.02, 2.5.1.1).  rodbus (common::phys::PhysLayer::write on the    *)
(* serial variant) does not start a transmission earlier than that after   *)
(* its previous one.                                                       *)
(*                                                                         *)
(* The harness (e3_pty, kind "spacing") runs the production RTU server     *)
(* task on a pseudo-terminal configured for a very low baud rate, puts     *)
(* several requests on the bus in one write and records when each reply    *)
(* has arrived.  An observer on the bus can be late but not early, so the  *)
(* recorded gap between two replies is judged against HALF the prescribed  *)
(* interval -- at 50 baud that is 385 ms, far above any scheduling noise,   *)
(* while a library without the rule answers back to back.                  *)
(* This is reported in the evidence of C06 as a stage of its own and is    *)
(* never turned into a VIOLATION of a listed property.                     *)
(***************************************************************************)
EXTENDS Naturals, Sequences, Json, IOUtils, TLC

Rec == ndJsonDeserialize(IOEnv.TRACE)
VARIABLE l
Init == l = 1
Ev == Rec[l]

DelayMicros(baud) == IF baud <= 19200 THEN (35 * 11 * 1000000) \div (10 * baud) ELSE 1750

Judge ==
  /\ l <= Len(Rec) /\ Ev.e = "spacing"
  /\ Ev.frames = Ev.expected_frames                      \* every request was answered
  /\ Len(Ev.gaps_us) = Ev.expected_frames - 1
  /\ \A k \in 1..Len(Ev.gaps_us) : 2 * Ev.gaps_us[k] >= DelayMicros(Ev.baud)
  /\ l' = l + 1
Spec == Init /\ [][Judge]_l

\* the table of the serial line specification
DelayTable ==
  /\ DelayMicros(50) = 770000 /\ DelayMicros(1200) = 32083 /\ DelayMicros(9600) = 4010
  /\ DelayMicros(19200) = 2005 /\ DelayMicros(19201) = 1750 /\ DelayMicros(115200) = 1750

Furthest == \/ TLCGet(1) >= l \/ TLCSet(1, l)
TraceAccepted == IF TLCGet(1) = Len(Rec) + 1 THEN TRUE ELSE PrintT(<<"REJECT", TLCGet(1), ToJson(Rec[TLCGet(1)])>>) /\ FALSE
ASSUME TLCSet(1, 0)
=============================================================================
