SPECIFICATION Spec
CONSTANTS
  MaxReadBits = 2000
  MaxReadRegs = 125
  MaxWriteCoils = 1968
  MaxWriteRegs = 123
  AddrSpace = 65536
CONSTRAINT Furthest
INVARIANT ClosedFormMatchesValidRange
POSTCONDITION TraceAccepted
CHECK_DEADLOCK FALSE
