--------------------------- MODULE ServerTask_Sim ---------------------------
(***************************************************************************)
(* Specification -> implementation for the TCP server task (C15): TLC      *)
(* simulates ServerTask_MC and prints the ENVIRONMENT moves of each        *)
(* behaviour -- a connection arriving (Accept), a peer that stops reading  *)
(* its replies, a peer closing, a decode-level change, shutdown, handle    *)
(* drop -- in the order the model interleaved them with the server's and   *)
(* the sessions' own steps.  bin/check turns each printed sequence into an *)
(* e4_server script (adding requests on the connections that must still be *)
(* served), replays it against the production server task on loopback      *)
(* sockets and validates the recording against ServerTaskTrace.tla.        *)
(***************************************************************************)
EXTENDS ServerTask_MC, Json

CONSTANTS Moves

VARIABLE elog
svars == <<tracker, live, blocked, sq, srvq, closeq, closing, pc, todo, nextId, handle, decodes, shutReq, closes, elog>>

Log(m) == elog' = Append(elog, m)

SimInit == Init /\ elog = <<>>

SimNext ==
  \/ SendDecode /\ Log([op |-> "decode"])
  \/ SendShutdown /\ Log([op |-> "shutdown"])
  \/ DropHandle /\ Log([op |-> "drop"])
  \/ \E i \in Ids : PeerStopsReading(i) /\ Log([op |-> "flood", c |-> i])
  \/ \E i \in Ids : PeerCloses(i) /\ Log([op |-> "close", c |-> i])
  \/ Accept /\ Log([op |-> "conn", c |-> nextId])
  \/ (RecvCommand \/ HandleGone \/ RecvClose \/ Fanout) /\ UNCHANGED elog
  \/ \E i \in Ids : SessionStep(i) /\ UNCHANGED elog

SimSpec == SimInit /\ [][SimNext]_svars

PrintScript == (Len(elog') = Moves /\ Len(elog) = Moves - 1) => PrintT(<<"SCRIPT", ToJson(elog')>>)
=============================================================================
