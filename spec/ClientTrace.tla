---------------------------- MODULE ClientTrace ----------------------------
(***************************************************************************)
(* Trace validation of the production client (E2: ClientLoop::run through  *)
(* verif::ClientSession; E3: the whole TcpChannelTask).                    *)
(* Input events (submit, peer bytes, tick, commands, faults) are bound to   *)
(* the environment moves of Client.tla, output events (tx, done, end,      *)
(* listener) must be the `out` of a task step, internal task steps are     *)
(* silent.  Inputs and `q` markers require that the task has nothing left  *)
(* to do on its own (Quiescent), so a request left in the queue, a reply   *)
(* not yet handled or a timer not yet fired at that point is a rejection.  *)
(***************************************************************************)
EXTENDS Client, Json, IOUtils, SequencesExt

Rec == ndJsonDeserialize(IOEnv.TRACE)

VARIABLES l,
          based      \* is the transaction id of the model tied to the implementation's (see Rebase)
tvars == <<s, out, l, based>>

Ev == Rec[l]
Is(name) == l <= Len(Rec) /\ Ev.e = name
Consume == l' = l + 1 /\ based' = based

TraceInit ==
  /\ l = 1 /\ based = TRUE
  /\ s = Init0("session", "tcp", 1, 0, 1, 1, 0)
  /\ out = NoOut

(* classes of errors that are "an error which is not an exception" *)
RejectClasses == {"badrequest", "internal"}
ErrClasses == {"badresponse", "internal", "badrequest"}

MatchDone(o, e) ==
  /\ e.e = "done" /\ o.r = e.r
  /\ e.t = s'.now
  /\ e.n = 1                                  \* the completion fired exactly once
  /\ CASE o.class = "reject" -> e.class \in RejectClasses
       [] o.class = "err" -> e.class \in ErrClasses
       [] o.class = "exc" -> e.class = "exc" /\ e.code = o.code
       [] o.class = "ok" -> e.class = "ok" /\ e.values = o.values /\ e.indexed = TRUE
       [] OTHER -> e.class = o.class

Matches(o, e) ==
  CASE o.e = "tx" -> e.e = "tx" /\ e.bytes = o.bytes
    [] o.e = "done" -> MatchDone(o, e)
    [] o.e = "end" -> e.e = "end" /\ e.reason = o.reason
    [] o.e = "listener" -> e.e = "listener" /\ e.state = o.state /\ e.d = o.d
    [] o.e = "attempt" -> e.e = "attempt" /\ e.t = s'.now
    [] OTHER -> FALSE

(* a task step: silent, or emitting exactly the next logged event *)
OnTask ==
  /\ TaskStep
  /\ IF out' = NoOut THEN l' = l /\ based' = based
     ELSE l <= Len(Rec) /\ Matches(out', Ev) /\ Consume

\* C11 pins how the transaction id advances, not where it starts.  A run that does not set the first id through the hook
\* (txid0 = -1: the TCP channel task) reveals it with its first transmitted frame.  Until then no id has had any visible
\* effect (nothing was outstanding, so nothing was compared), therefore the model's counter is tied to the implementation's
\* exactly once, silently, at the moment the next logged event is that first frame; every later frame must follow from it.
Rebase ==
  /\ ~based /\ Is("tx") /\ Len(Ev.bytes) >= 2 /\ s.cur = NoCur /\ s.framing = "tcp"
  /\ s' = [s EXCEPT !.txid = (Ev.bytes[1] * 256 + Ev.bytes[2]) % TxMod]
  /\ based' = TRUE /\ out' = NoOut /\ l' = l

OnCfg ==
  /\ Is("cfg") /\ Quiescent
  /\ s.ready = {}
  \* nothing may be pending from the previous scenario
  /\ \/ l = 1
     \/ s.queue = <<>> /\ s.sendq = <<>> /\ s.pc \in {"idle", "ended", "done", "aborted"}
  /\ s' = [Init0(Ev.mode, Ev.framing, Ev.queue, Ev.max_timeouts, Ev.retry[1], Ev.retry[2], IF Ev.txid0 >= 0 THEN Ev.txid0 ELSE 0)
             EXCEPT !.portOk = IF "port" \in DOMAIN Ev THEN Ev.port ELSE TRUE]
  /\ based' = (Ev.txid0 >= 0)
  /\ out' = NoOut /\ l' = l + 1

OnSubmit ==
  /\ Is("submit")
  /\ Submit(MkReq(Ev.r, Ev.style, Ev.fc, Ev.unit, Ev.start, Ev.count, Ev.values, Ev.timeout))
  /\ Consume

OnCmd ==
  /\ Is("cmd")
  /\ CASE Ev.kind = "enable" -> Command("en")
       [] Ev.kind = "disable" -> Command("dis")
       [] Ev.kind = "decode" -> Command("dec")
       [] Ev.kind = "shutdown" -> Command("shut")
       [] Ev.kind = "drop" -> DropHandles
       [] Ev.kind = "abort" -> IF TaskGone THEN Quiescent /\ UNCHANGED <<s, out>> ELSE Abort
       [] Ev.kind = "new_conn" -> NewConnection
  /\ Consume

OnPeer == Is("peer") /\ PeerBytes(Ev.bytes) /\ Consume
OnEof == (Is("eof") \/ Is("rerr")) /\ PeerClose /\ Consume
OnWerr == Is("werr") /\ WriteBreaks /\ Consume
OnTick == Is("tick") /\ Tick(Ev.d) /\ Consume
OnConn == Is("connector") /\ (IF Ev.race THEN ConnectorResultRacing(Ev.res) ELSE ConnectorResult(Ev.res)) /\ Consume

OnHold == Is("whold") /\ WriteHold(Ev.on) /\ Consume
OnPort == Is("port") /\ PortSet(Ev.ok) /\ Consume

OnQuiet == Is("q") /\ Quiescent /\ UNCHANGED <<s, out>> /\ Consume

TraceNext == OnTask \/ Rebase \/ OnCfg \/ OnSubmit \/ OnCmd \/ OnPeer \/ OnEof \/ OnWerr \/ OnTick \/ OnConn \/ OnPort \/ OnHold \/ OnQuiet

TraceSpec == TraceInit /\ [][TraceNext]_tvars

(***************************************************************************)
(* Invariants on every state of the matched behaviour                      *)
(***************************************************************************)
\* C11: at most one request outstanding, and only while connected
OneOutstanding == (s.cur # NoCur) <=> (s.pc = "await")
\* C03: nothing longer than the protocol allows is ever emitted
TxBounded == out.e = "tx" => Len(out.bytes) <= IF s.framing = "tcp" THEN 260 ELSE 256
\* C13: no request waits in the queue while the channel is down and quiescent
FailFast == (Quiescent /\ Down) => PendingReqs(s.queue) = {}

Furthest ==
  \/ TLCGet(1) >= l
  \/ /\ TLCSet(1, l)
     /\ TLCSet(2, [pc |-> s.pc, now |-> s.now, queue |-> Len(s.queue), sendq |-> Len(s.sendq),
                   cur |-> s.cur.r, deadline |-> s.cur.deadline, toCount |-> s.toCount,
                   rbuf |-> Len(s.rbuf), ready |-> Cardinality(s.ready), enabled |-> s.enabled,
                   txid |-> s.txid, quiescent |-> Quiescent])

TraceAccepted ==
  IF TLCGet(1) = Len(Rec) + 1 THEN TRUE
  ELSE /\ PrintT(<<"REJECT", TLCGet(1), ToJson(TLCGet(2))>>)
       /\ FALSE

ASSUME TLCSet(1, 0) /\ TLCSet(2, "none")
=============================================================================
