SPECIFICATION Spec
CONSTANTS N = 254
INVARIANT Lemma
