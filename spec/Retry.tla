------------------------------- MODULE Retry -------------------------------
(***************************************************************************)
(* The doubling retry strategy object (C14): after the k-th consecutive    *)
(* failed connect the delay is min * 2^(k-1) capped at max, after a lost   *)
(* connection it is min, reset restarts the sequence.  Doubles as the      *)
(* trace specification for recorded call sequences on the real objects     *)
(* (doubling_retry_strategy / default_retry_strategy).                     *)
(* Domain: min <= max (min > max is observation O4, not generated).        *)
(***************************************************************************)
EXTENDS Naturals, Sequences, Json, IOUtils, TLC

Rec == ndJsonDeserialize(IOEnv.TRACE)

VARIABLES l, min, max, cur, k     \* k = consecutive failures so far (for the closed form)
vars == <<l, min, max, cur, k>>

Min2(a, b) == IF a < b THEN a ELSE b
RECURSIVE Pow2(_)
Pow2(n) == IF n = 0 THEN 1 ELSE 2 * Pow2(n - 1)

Init == l = 1 /\ min = 1 /\ max = 1 /\ cur = 1 /\ k = 0

Ev == Rec[l]
Is(c) == l <= Len(Rec) /\ Ev.e = "retry" /\ Ev.call = c

New == /\ Is("new") /\ min' = Ev.min /\ max' = Ev.max /\ cur' = Ev.min /\ k' = 0 /\ l' = l + 1
Failed == /\ Is("failed") /\ Ev.ret = cur
          /\ cur' = Min2(2 * cur, max) /\ k' = k + 1 /\ l' = l + 1 /\ UNCHANGED <<min, max>>
Disconnect == /\ Is("disconnect") /\ Ev.ret = min /\ l' = l + 1 /\ UNCHANGED <<min, max, cur, k>>
Reset == /\ Is("reset") /\ cur' = min /\ k' = 0 /\ l' = l + 1 /\ UNCHANGED <<min, max>>

Next == New \/ Failed \/ Disconnect \/ Reset
Spec == Init /\ [][Next]_vars

\* the closed form the property states: the next failure returns min * 2^k capped at max
ClosedForm == k <= 20 => cur = Min2(min * Pow2(k), max)

Furthest == \/ TLCGet(1) >= l
            \/ TLCSet(1, l) /\ TLCSet(2, [cur |-> cur, min |-> min, max |-> max, k |-> k])
TraceAccepted == IF TLCGet(1) = Len(Rec) + 1 THEN TRUE
                 ELSE PrintT(<<"REJECT", TLCGet(1), ToJson(TLCGet(2))>>) /\ FALSE
ASSUME TLCSet(1, 0) /\ TLCSet(2, "none")
=============================================================================
