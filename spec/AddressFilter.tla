--------------------------- MODULE AddressFilter ---------------------------
(***************************************************************************)
(* The address filter of the TCP / TLS servers (C16).  Addresses are       *)
(* sequences of octets exactly as accept() reports them (4 octets for      *)
(* IPv4, 16 for IPv6; an IPv4 peer of an IPv6 listener is the mapped       *)
(* address ::ffff:a.b.c.d and therefore matches no IPv4 entry --           *)
(* fail-closed, observation O7).                                           *)
(*   filter = [kind |-> "any"]                                             *)
(*          | [kind |-> "exact" | "anyof", addrs |-> sequence of addrs]    *)
(*          | [kind |-> "wildcard", fields |-> <<f3,f2,f1,f0>>], -1 = '*'  *)
(***************************************************************************)
EXTENDS Naturals, Integers, Sequences

FieldOk(f, b) == f = -1 \/ f = b

Matches(filter, addr) ==
  CASE filter.kind = "any" -> TRUE
    [] filter.kind \in {"exact", "anyof"} -> \E i \in 1..Len(filter.addrs) : filter.addrs[i] = addr
    [] filter.kind = "wildcard" ->
         /\ Len(addr) = 4
         /\ \A i \in 1..4 : FieldOk(filter.fields[i], addr[i])

(***************************************************************************)
(* Wildcard strings: fields is the string split at '.', each field a       *)
(* sequence of one-character strings.  "ok" / "reject" / "either" (gray:   *)
(* a leading '+' which u8::from_str accepts, named leniency O2).           *)
(***************************************************************************)
Digits == {"0", "1", "2", "3", "4", "5", "6", "7", "8", "9"}
DigitVal(c) == CASE c = "0" -> 0 [] c = "1" -> 1 [] c = "2" -> 2 [] c = "3" -> 3 [] c = "4" -> 4
                 [] c = "5" -> 5 [] c = "6" -> 6 [] c = "7" -> 7 [] c = "8" -> 8 [] c = "9" -> 9

RECURSIVE NumVal(_)
NumVal(s) == IF s = <<>> THEN 0 ELSE 10 * NumVal(SubSeq(s, 1, Len(s) - 1)) + DigitVal(s[Len(s)])

IsNumber(s) == Len(s) >= 1 /\ Len(s) <= 6 /\ (\A i \in 1..Len(s) : s[i] \in Digits) /\ NumVal(s) <= 255
\* more than 6 digits: only all-zero prefixes could still be <= 255; treated as gray below
LongNumber(s) == Len(s) > 6 /\ \A i \in 1..Len(s) : s[i] \in Digits

FieldClass(f) ==
  IF f = <<"*">> THEN "ok"
  ELSE IF IsNumber(f) THEN "ok"
  ELSE IF LongNumber(f) THEN "either"
  ELSE IF Len(f) >= 2 /\ f[1] = "+" /\ IsNumber(SubSeq(f, 2, Len(f))) THEN "either"
  ELSE "reject"

WildcardClass(fields) ==
  IF Len(fields) # 4 THEN "reject"
  ELSE IF \E i \in 1..4 : FieldClass(fields[i]) = "reject" THEN "reject"
  ELSE IF \E i \in 1..4 : FieldClass(fields[i]) = "either" THEN "either"
  ELSE "ok"
=============================================================================
