#!/bin/sh
# Provenance of fixtures/certs (pre-generated and committed; NOT run at check time).
# Needs an openssl >= 3.2 (for -not_before/-not_after). Everything is test-only material.
set -e
O=${OPENSSL:-/root/miniconda/bin/openssl}
D=$(dirname "$0")/certs
mkdir -p "$D"; cd "$D"
ROLE_OID=1.3.6.1.4.1.50316.802.1
key() { $O genrsa -out "$1" 2048 2>/dev/null; }
SUBJ="/C=US/O=Verif/CN="
# --- two authorities
for ca in ca1 ca2; do
  key ${ca}_key.pem
  $O req -x509 -new -key ${ca}_key.pem -sha256 -days 36500 -subj "${SUBJ}${ca}" \
     -addext "basicConstraints=critical,CA:TRUE" -addext "keyUsage=critical,keyCertSign,cRLSign" -out ${ca}_cert.pem
done
# leaf <name> <ca> <extfile-body> [not_before not_after]
leaf() {
  name=$1; ca=$2; ext=$3; nb=$4; na=$5
  key ${name}_key.pem
  $O req -new -key ${name}_key.pem -subj "${SUBJ}${name}" -out ${name}.csr
  printf '%b' "$ext" > ${name}.ext
  if [ -n "$nb" ]; then dates="-not_before $nb -not_after $na"; else dates="-days 36500"; fi
  $O x509 -req -in ${name}.csr -CA ${ca}_cert.pem -CAkey ${ca}_key.pem -CAcreateserial -sha256 $dates \
     -extfile ${name}.ext -out ${name}_cert.pem 2>/dev/null
  rm -f ${name}.csr ${name}.ext
}
SAN="subjectAltName=DNS:test.com,IP:127.0.0.1\nextendedKeyUsage=serverAuth,clientAuth\n"
leaf server ca1 "$SAN"
leaf server_othername ca1 "subjectAltName=DNS:other.example\nextendedKeyUsage=serverAuth,clientAuth\n"
leaf server_ca2 ca2 "$SAN"
# a server certificate WITHOUT subjectAltName whose common name is the expected name (subject CN=test.com)
key server_cnonly_key.pem
$O req -new -key server_cnonly_key.pem -subj "/C=US/O=Verif/CN=test.com" -out cn.csr
printf 'extendedKeyUsage=serverAuth,clientAuth\n' > cn.ext
$O x509 -req -in cn.csr -CA ca1_cert.pem -CAkey ca1_key.pem -CAcreateserial -sha256 -days 36500 -extfile cn.ext -out server_cnonly_cert.pem 2>/dev/null
rm -f cn.csr cn.ext
leaf server_expired ca1 "$SAN" 20200101000000Z 20210101000000Z
leaf server_notyet ca1 "$SAN" 20900101000000Z 20990101000000Z
CE="extendedKeyUsage=clientAuth,serverAuth\n"
leaf client_operator ca1 "${CE}${ROLE_OID}=ASN1:UTF8String:operator\n"
leaf client_viewer ca1 "${CE}${ROLE_OID}=ASN1:UTF8String:viewer\n"
leaf client_norole ca1 "${CE}"
leaf client_mixedcase ca1 "${CE}${ROLE_OID}=ASN1:UTF8String:OpeRator\n"   # the role is taken as it is written
leaf client_ca2_operator ca2 "${CE}${ROLE_OID}=ASN1:UTF8String:operator\n"
leaf client_expired ca1 "${CE}${ROLE_OID}=ASN1:UTF8String:operator\n" 20200101000000Z 20210101000000Z
leaf client_notyet ca1 "${CE}${ROLE_OID}=ASN1:UTF8String:operator\n" 20900101000000Z 20990101000000Z
# two role extensions cannot be expressed with an extfile (duplicate OID): built from a DER template
# (see gen_two_roles.py); kept separate.
# --- self-signed entities
ss() {
  name=$1; nb=$2; na=$3
  key ${name}_key.pem
  if [ -n "$nb" ]; then dates="-not_before $nb -not_after $na"; else dates="-days 36500"; fi
  $O req -x509 -new -key ${name}_key.pem -sha256 $dates -subj "${SUBJ}${name}" \
     -addext "basicConstraints=critical,CA:TRUE" -addext "${ROLE_OID}=ASN1:UTF8String:operator" -out ${name}_cert.pem
}
ss ss_a; ss ss_b; ss ss_c
ss ss_expired 20200101000000Z 20210101000000Z
rm -f *.srl
ls
