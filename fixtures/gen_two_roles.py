#!/usr/bin/env python3
"""Builds certs/client_tworoles_cert.pem: a client certificate that carries the Modbus role extension twice
(operator + viewer). openssl cannot express a duplicate OID, so a certificate with a sibling OID (..802.2) is
issued, the OID is patched to ..802.1 in the TBS and the TBS is re-signed with the CA key. Provenance only."""
import base64, subprocess, os, sys
O = os.environ.get("OPENSSL", "/root/miniconda/bin/openssl")
D = os.path.join(os.path.dirname(os.path.abspath(__file__)), "certs")
os.chdir(D)
def run(*a, **kw): return subprocess.run(a, check=True, capture_output=True, **kw).stdout
run(O, "genrsa", "-out", "client_tworoles_key.pem", "2048")
run(O, "req", "-new", "-key", "client_tworoles_key.pem", "-subj", "/C=US/O=Verif/CN=client_tworoles", "-out", "t.csr")
open("t.ext", "w").write("extendedKeyUsage=clientAuth,serverAuth\n1.3.6.1.4.1.50316.802.1=ASN1:UTF8String:operator\n"
                         "1.3.6.1.4.1.50316.802.2=ASN1:UTF8String:viewer\n")
run(O, "x509", "-req", "-in", "t.csr", "-CA", "ca1_cert.pem", "-CAkey", "ca1_key.pem", "-CAcreateserial", "-sha256",
    "-days", "36500", "-extfile", "t.ext", "-outform", "DER", "-out", "t.der")
der = bytearray(open("t.der", "rb").read())
oid2 = bytes([0x06, 0x0B, 0x2B, 0x06, 0x01, 0x04, 0x01, 0x83, 0x89, 0x0C, 0x86, 0x22, 0x02])
i = der.find(oid2)
assert i > 0 and der.find(oid2, i + 1) < 0
der[i + len(oid2) - 1] = 0x01
assert der[0] == 0x30 and der[1] == 0x82 and der[4] == 0x30 and der[5] == 0x82
tbs_len = 4 + ((der[6] << 8) | der[7])
tbs = bytes(der[4:4 + tbs_len])
open("t.tbs", "wb").write(tbs)
sig = run(O, "dgst", "-sha256", "-sign", "ca1_key.pem", "t.tbs")
assert len(sig) == 256
der[-256:] = sig
pem = "-----BEGIN CERTIFICATE-----\n" + "\n".join(
    base64.b64encode(bytes(der)).decode()[k:k + 64] for k in range(0, len(base64.b64encode(bytes(der))), 64)) + "\n-----END CERTIFICATE-----\n"
open("client_tworoles_cert.pem", "w").write(pem)
for f in ("t.csr", "t.ext", "t.der", "t.tbs", "ca1_cert.srl"):
    if os.path.exists(f): os.remove(f)
print(run(O, "verify", "-CAfile", "ca1_cert.pem", "client_tworoles_cert.pem").decode())
print(run(O, "x509", "-in", "client_tworoles_cert.pem", "-noout", "-text").decode().split("X509v3 extensions:")[1][:400])
