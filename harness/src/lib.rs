pub mod handlers;
pub mod trace;
pub mod util;
pub mod vio;
