pub mod handlers;
pub mod pty;
pub mod trace;
pub mod util;
pub mod vio;
