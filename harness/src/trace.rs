//! ndjson event sink shared by all engines. Events are recorded in a total order under one
//! lock; consecutive point reads are compressed losslessly into one `reads` event.

use serde_json::{json, Value};
use std::io::Write;
use std::sync::atomic::{AtomicU64, Ordering};
use std::sync::{Arc, Mutex};

struct PendingReads {
    u: u8,
    t: u8,
    start: u32,
    outs: Vec<u32>,
}

struct Inner {
    out: Box<dyn Write + Send>,
    pending: Option<PendingReads>,
    lines: u64,
    /// run-length mode (real-time server harness): a read series identical to the one written just before it, with
    /// nothing in between, is counted instead of written; the count follows as one `reads_rep` event.  A peer that
    /// floods a session with one request thousands of times otherwise produces traces of several hundred megabytes.
    rle: bool,
    last: Option<(u8, u8, u32, Vec<u32>)>,
    rep: u64,
}

#[derive(Clone)]
pub struct Sink {
    inner: Arc<Mutex<Inner>>,
    progress: Arc<AtomicU64>,
}

impl Sink {
    /// a sink that discards everything
    pub fn null() -> Self {
        Self::new(Box::new(std::io::sink()))
    }

    pub fn new(out: Box<dyn Write + Send>) -> Self {
        Self {
            inner: Arc::new(Mutex::new(Inner {
                out,
                pending: None,
                lines: 0,
                rle: false,
                last: None,
                rep: 0,
            })),
            progress: Arc::new(AtomicU64::new(0)),
        }
    }

    fn lock(&self) -> std::sync::MutexGuard<'_, Inner> {
        self.inner.lock().unwrap_or_else(|e| e.into_inner())
    }

    pub fn set_run_length(&self, on: bool) {
        let mut g = self.lock();
        Self::flush_pending(&mut g);
        Self::flush_rep(&mut g);
        g.rle = on;
    }

    fn flush_rep(inner: &mut Inner) {
        if inner.rep > 0 {
            if let Some((u, t, s, outs)) = inner.last.as_ref() {
                let v = json!({"e":"reads_rep","u":u,"t":t,"s":s,"n":outs.len(),"k":inner.rep});
                let _ = writeln!(inner.out, "{}", v);
                inner.lines += 1;
            }
        }
        inner.rep = 0;
        inner.last = None;
    }

    fn flush_pending(inner: &mut Inner) {
        if let Some(p) = inner.pending.take() {
            if inner.rle {
                if let Some((u, t, s, outs)) = inner.last.as_ref() {
                    if *u == p.u && *t == p.t && *s == p.start && *outs == p.outs {
                        inner.rep += 1;
                        return;
                    }
                }
                Self::flush_rep(inner);
            }
            let v = json!({"e":"reads","u":p.u,"t":p.t,"s":p.start,"n":p.outs.len(),"outs":p.outs});
            let _ = writeln!(inner.out, "{}", v);
            inner.lines += 1;
            if inner.rle {
                inner.last = Some((p.u, p.t, p.start, p.outs));
            }
        }
    }

    /// any activity observable by the harness bumps this counter (used for quiescence detection)
    pub fn bump(&self) {
        self.progress.fetch_add(1, Ordering::SeqCst);
    }

    pub fn progress(&self) -> u64 {
        self.progress.load(Ordering::SeqCst)
    }

    pub fn emit(&self, v: Value) {
        self.bump();
        let mut g = self.lock();
        Self::flush_pending(&mut g);
        Self::flush_rep(&mut g);
        let _ = writeln!(g.out, "{}", v);
        g.lines += 1;
    }

    /// a single point read performed by the library on an application handler
    pub fn read(&self, u: u8, t: u8, addr: u16, out: u32) {
        self.bump();
        let mut g = self.lock();
        if let Some(p) = g.pending.as_mut() {
            if p.u == u && p.t == t && p.start + p.outs.len() as u32 == addr as u32 {
                p.outs.push(out);
                return;
            }
        }
        Self::flush_pending(&mut g);
        g.pending = Some(PendingReads {
            u,
            t,
            start: addr as u32,
            outs: vec![out],
        });
    }

    pub fn flush(&self) {
        let mut g = self.lock();
        Self::flush_pending(&mut g);
        Self::flush_rep(&mut g);
        let _ = g.out.flush();
    }

    pub fn lines(&self) -> u64 {
        self.lock().lines
    }
}

pub fn bytes_json(b: &[u8]) -> Value {
    Value::Array(b.iter().map(|x| Value::from(*x)).collect())
}
