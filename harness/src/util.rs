use crate::trace::Sink;
use rodbus::{AppDecodeLevel, DecodeLevel, FrameDecodeLevel, PhysDecodeLevel};
use std::future::Future;
use std::pin::Pin;
use std::sync::atomic::{AtomicU64, Ordering};
use std::sync::{Arc, Mutex};
use std::task::{Context, Poll};

pub fn decode_level(v: &[u8]) -> DecodeLevel {
    let a = match v.first().copied().unwrap_or(0) {
        0 => AppDecodeLevel::Nothing,
        1 => AppDecodeLevel::FunctionCode,
        2 => AppDecodeLevel::DataHeaders,
        _ => AppDecodeLevel::DataValues,
    };
    let f = match v.get(1).copied().unwrap_or(0) {
        0 => FrameDecodeLevel::Nothing,
        1 => FrameDecodeLevel::Header,
        _ => FrameDecodeLevel::Payload,
    };
    let p = match v.get(2).copied().unwrap_or(0) {
        0 => PhysDecodeLevel::Nothing,
        1 => PhysDecodeLevel::Length,
        _ => PhysDecodeLevel::Data,
    };
    DecodeLevel::new(a, f, p)
}

/// wraps a future and counts how often it is polled
pub struct PollCounted<F> {
    inner: Pin<Box<F>>,
    polls: Arc<AtomicU64>,
}

impl<F: Future> PollCounted<F> {
    pub fn new(f: F, polls: Arc<AtomicU64>) -> Self {
        Self {
            inner: Box::pin(f),
            polls,
        }
    }
}

impl<F: Future> Future for PollCounted<F> {
    type Output = F::Output;
    fn poll(mut self: Pin<&mut Self>, cx: &mut Context<'_>) -> Poll<Self::Output> {
        self.polls.fetch_add(1, Ordering::SeqCst);
        self.inner.as_mut().poll(cx)
    }
}

/// Yield until nothing observable changes any more (current-thread runtime, paused clock).
/// Returns false when the observed tasks keep running without ever becoming idle.
pub async fn settle(sink: &Sink, polls: &[Arc<AtomicU64>]) -> bool {
    let snapshot = |s: &Sink| -> u64 {
        s.progress() + polls.iter().map(|p| p.load(Ordering::SeqCst)).sum::<u64>()
    };
    let mut stable = 0;
    let mut last = snapshot(sink);
    for _ in 0..200_000u32 {
        tokio::task::yield_now().await;
        let now = snapshot(sink);
        if now == last {
            stable += 1;
            if stable >= 4 {
                return true;
            }
        } else {
            stable = 0;
            last = now;
        }
    }
    false
}

static LAST_PANIC: Mutex<Option<String>> = Mutex::new(None);

pub fn install_panic_hook() {
    if std::env::var("VERIF_NO_PANIC_HOOK").is_ok() {
        return;
    }
    std::panic::set_hook(Box::new(|info| {
        let loc = info
            .location()
            .map(|l| format!("{}:{}", l.file(), l.line()))
            .unwrap_or_default();
        let msg = if let Some(s) = info.payload().downcast_ref::<&str>() {
            s.to_string()
        } else if let Some(s) = info.payload().downcast_ref::<String>() {
            s.clone()
        } else {
            "?".to_string()
        };
        *LAST_PANIC.lock().unwrap_or_else(|e| e.into_inner()) = Some(format!("{loc}: {msg}"));
    }));
}

pub fn take_panic() -> Option<String> {
    LAST_PANIC.lock().unwrap_or_else(|e| e.into_inner()).take()
}

/// Wall-clock watchdog: if one scenario runs longer than `secs`, record `stuck` and exit(3).
pub struct Watchdog {
    beat: Arc<AtomicU64>,
}

impl Watchdog {
    pub fn start(sink: Sink, secs: u64) -> Self {
        let beat = Arc::new(AtomicU64::new(0));
        let b = beat.clone();
        std::thread::spawn(move || {
            let mut last = b.load(Ordering::SeqCst);
            let mut since = std::time::Instant::now();
            loop {
                std::thread::sleep(std::time::Duration::from_millis(200));
                let cur = b.load(Ordering::SeqCst);
                if cur != last {
                    last = cur;
                    since = std::time::Instant::now();
                } else if cur != 0 && cur != u64::MAX && since.elapsed().as_secs() >= secs {
                    sink.emit(serde_json::json!({"e":"stuck","scenario":cur - 1,"why":"watchdog: no progress to the next scenario (busy loop or deadlock)"}));
                    sink.flush();
                    std::process::exit(3);
                }
            }
        });
        Self { beat }
    }
    pub fn scenario(&self, id: u64) {
        self.beat.store(id + 1, Ordering::SeqCst);
    }
    pub fn done(&self) {
        self.beat.store(u64::MAX, Ordering::SeqCst);
    }
}

pub fn install_tracing() {
    // a subscriber at INFO so that the Display / Loggable code of the library actually runs
    let _ = tracing_subscriber::fmt()
        .with_max_level(tracing::Level::INFO)
        .with_writer(std::io::sink)
        .try_init();
}

pub fn io_kind(name: &str) -> std::io::ErrorKind {
    use std::io::ErrorKind::*;
    match name {
        "ConnectionReset" => ConnectionReset,
        "ConnectionAborted" => ConnectionAborted,
        "BrokenPipe" => BrokenPipe,
        "TimedOut" => TimedOut,
        "ConnectionRefused" => ConnectionRefused,
        "UnexpectedEof" => UnexpectedEof,
        _ => Other,
    }
}
