//! Programmable application handlers whose semantics are *defined by the specification*
//! (ServerSession.tla: DefBit/DefReg/holes/overrides, AuthDecision). They record every
//! invocation made by the library.

use crate::trace::Sink;
use rodbus::server::*;
use rodbus::*;
use serde_json::json;
use std::collections::HashMap;
use std::sync::{Arc, Mutex};

pub const T_COIL: u8 = 0;
pub const T_DISCRETE: u8 = 1;
pub const T_HOLDING: u8 = 2;
pub const T_INPUT: u8 = 3;
/// reading this holding / input register takes as long as the harness keeps the gate closed (at least 400 ms, real
/// time, when the gate is open; at most 45 s): "the session is busy inside a slow handler" does not depend on how
/// fast the harness itself gets to run (the upper bound only keeps a broken harness from hanging)
pub const SLOW_REGISTER: u16 = 9999;

pub struct Gate {
    closed: Mutex<bool>,
    cv: std::sync::Condvar,
}

pub static SLOW_GATE: Gate = Gate { closed: Mutex::new(false), cv: std::sync::Condvar::new() };

impl Gate {
    pub fn close(&self) {
        *self.closed.lock().unwrap_or_else(|e| e.into_inner()) = true;
    }
    pub fn open(&self) {
        *self.closed.lock().unwrap_or_else(|e| e.into_inner()) = false;
        self.cv.notify_all();
    }
    fn pass(&self) {
        let t0 = std::time::Instant::now();
        let mut g = self.closed.lock().unwrap_or_else(|e| e.into_inner());
        let mut waited = false;
        while *g && t0.elapsed() < std::time::Duration::from_secs(45) {
            waited = true;
            let (g2, _) = self.cv.wait_timeout(g, std::time::Duration::from_millis(50)).unwrap_or_else(|e| e.into_inner());
            g = g2;
        }
        drop(g);
        if !waited {
            std::thread::sleep(std::time::Duration::from_millis(400));
        }
    }
}

#[derive(Clone, Debug)]
pub struct Hole {
    pub u: u8,
    pub t: u8,
    pub a: u16,
    pub code: u8,
}

pub fn def_bit(seed: u32, u: u8, t: u8, a: u16) -> bool {
    ((a as u32) * 31 + (u as u32) * 7 + (t as u32) * 13 + seed) % 5 < 2
}

pub fn def_reg(seed: u32, u: u8, t: u8, a: u16) -> u16 {
    (((a as u32) * 251 + (u as u32) * 257 + (t as u32) * 7919 + seed * 97) % 65536) as u16
}

pub struct DbHandler {
    pub u: u8,
    pub seed: u32,
    pub holes: HashMap<(u8, u16), u8>,
    pub over: Mutex<HashMap<(u8, u16), u16>>,
    pub sink: Sink,
}

impl DbHandler {
    pub fn new(u: u8, seed: u32, holes: &[Hole], sink: Sink) -> Self {
        let mut h = HashMap::new();
        for x in holes.iter().filter(|x| x.u == u) {
            h.insert((x.t, x.a), x.code);
        }
        Self {
            u,
            seed,
            holes: h,
            over: Mutex::new(HashMap::new()),
            sink,
        }
    }

    fn bit(&self, t: u8, a: u16) -> Result<bool, ExceptionCode> {
        let r = match self.holes.get(&(t, a)) {
            Some(code) => Err(ExceptionCode::from(*code)),
            None => Ok(match self.over.lock().unwrap().get(&(t, a)) {
                Some(v) => *v != 0,
                None => def_bit(self.seed, self.u, t, a),
            }),
        };
        let out = match r {
            Ok(b) => b as u32,
            Err(e) => 1000 + u8::from(e) as u32,
        };
        self.sink.read(self.u, t, a, out);
        r
    }

    fn reg(&self, t: u8, a: u16) -> Result<u16, ExceptionCode> {
        let r = match self.holes.get(&(t, a)) {
            Some(code) => Err(ExceptionCode::from(*code)),
            None => Ok(match self.over.lock().unwrap().get(&(t, a)) {
                Some(v) => *v,
                None => def_reg(self.seed, self.u, t, a),
            }),
        };
        let out = match r {
            Ok(b) => b as u32,
            Err(e) => 1000 + u8::from(e) as u32,
        };
        self.sink.read(self.u, t, a, out);
        if a == SLOW_REGISTER {
            // a slow application handler: the session is busy inside the handler for a while
            SLOW_GATE.pass();
        }
        r
    }

    fn write(&mut self, m: &str, t: u8, vals: Vec<(u16, u16)>) -> Result<(), ExceptionCode> {
        // lowest hole inside the written addresses decides; nothing is applied then
        let hole = vals
            .iter()
            .filter_map(|(a, _)| self.holes.get(&(t, *a)).map(|c| (*a, *c)))
            .min();
        let out = hole.map(|(_, c)| c).unwrap_or(0);
        let start = vals.first().map(|x| x.0 as i64).unwrap_or(-1);
        let addrs_contiguous = vals
            .iter()
            .enumerate()
            .all(|(i, (a, _))| *a as i64 == start + i as i64);
        self.sink.emit(json!({"e":"write","u":self.u,"m":m,"s":start,
            "vals": vals.iter().map(|x| x.1).collect::<Vec<u16>>(), "contig": addrs_contiguous, "out": out}));
        match hole {
            Some((_, c)) => Err(ExceptionCode::from(c)),
            None => {
                let mut o = self.over.lock().unwrap();
                for (a, v) in vals {
                    o.insert((t, a), v);
                }
                Ok(())
            }
        }
    }
}

impl RequestHandler for DbHandler {
    fn read_coil(&self, address: u16) -> Result<bool, ExceptionCode> {
        self.bit(T_COIL, address)
    }
    fn read_discrete_input(&self, address: u16) -> Result<bool, ExceptionCode> {
        self.bit(T_DISCRETE, address)
    }
    fn read_holding_register(&self, address: u16) -> Result<u16, ExceptionCode> {
        self.reg(T_HOLDING, address)
    }
    fn read_input_register(&self, address: u16) -> Result<u16, ExceptionCode> {
        self.reg(T_INPUT, address)
    }
    fn write_single_coil(&mut self, value: Indexed<bool>) -> Result<(), ExceptionCode> {
        self.write("wsc", T_COIL, vec![(value.index, value.value as u16)])
    }
    fn write_single_register(&mut self, value: Indexed<u16>) -> Result<(), ExceptionCode> {
        self.write("wsr", T_HOLDING, vec![(value.index, value.value)])
    }
    fn write_multiple_coils(&mut self, values: WriteCoils) -> Result<(), ExceptionCode> {
        let v: Vec<(u16, u16)> = values.iterator.map(|x| (x.index, x.value as u16)).collect();
        if v.first().map(|x| x.0) != Some(values.range.start) || v.len() != values.range.count as usize {
            self.sink.emit(json!({"e":"range_mismatch","u":self.u,"m":"wmc","s":values.range.start,"c":values.range.count,"n":v.len()}));
        }
        self.write("wmc", T_COIL, v)
    }
    fn write_multiple_registers(&mut self, values: WriteRegisters) -> Result<(), ExceptionCode> {
        let v: Vec<(u16, u16)> = values.iterator.map(|x| (x.index, x.value)).collect();
        if v.first().map(|x| x.0) != Some(values.range.start) || v.len() != values.range.count as usize {
            self.sink.emit(json!({"e":"range_mismatch","u":self.u,"m":"wmr","s":values.range.start,"c":values.range.count,"n":v.len()}));
        }
        self.write("wmr", T_HOLDING, v)
    }
}

/// Authorization policy whose decision function is defined in the specification
#[derive(Clone, Debug)]
pub struct AuthCfg {
    pub policy: String, // allow | deny | readonly | hash
    pub seed: u32,
    pub role: String,
}

pub struct PolicyAuth {
    cfg: AuthCfg,
    builtin: Arc<dyn AuthorizationHandler>,
    sink: Sink,
}

impl PolicyAuth {
    pub fn create(cfg: AuthCfg, sink: Sink) -> Arc<dyn AuthorizationHandler> {
        Arc::new(Self {
            cfg,
            builtin: ReadOnlyAuthorizationHandler::create(),
            sink,
        })
    }

    fn decide(
        &self,
        m: &str,
        mi: u32,
        unit: UnitId,
        s: u16,
        c: u16,
        role: &str,
        builtin: Authorization,
    ) -> Authorization {
        let d = match self.cfg.policy.as_str() {
            "allow" => true,
            "deny" => false,
            "readonly" => builtin == Authorization::Allow,
            _ => (mi * 3 + (unit.value as u32) * 5 + (s as u32) * 7 + (c as u32) * 11 + self.cfg.seed) % 3 != 0,
        };
        self.sink.emit(json!({"e":"auth","m":m,"u":unit.value,"s":s,"c":c,"role":role,"d":d}));
        if d {
            Authorization::Allow
        } else {
            Authorization::Deny
        }
    }
}

impl AuthorizationHandler for PolicyAuth {
    fn read_coils(&self, u: UnitId, r: AddressRange, role: &str) -> Authorization {
        self.decide("rc", 1, u, r.start, r.count, role, self.builtin.read_coils(u, r, role))
    }
    fn read_discrete_inputs(&self, u: UnitId, r: AddressRange, role: &str) -> Authorization {
        self.decide("rdi", 2, u, r.start, r.count, role, self.builtin.read_discrete_inputs(u, r, role))
    }
    fn read_holding_registers(&self, u: UnitId, r: AddressRange, role: &str) -> Authorization {
        self.decide("rhr", 3, u, r.start, r.count, role, self.builtin.read_holding_registers(u, r, role))
    }
    fn read_input_registers(&self, u: UnitId, r: AddressRange, role: &str) -> Authorization {
        self.decide("rir", 4, u, r.start, r.count, role, self.builtin.read_input_registers(u, r, role))
    }
    fn write_single_coil(&self, u: UnitId, idx: u16, role: &str) -> Authorization {
        self.decide("wsc", 5, u, idx, 0, role, self.builtin.write_single_coil(u, idx, role))
    }
    fn write_single_register(&self, u: UnitId, idx: u16, role: &str) -> Authorization {
        self.decide("wsr", 6, u, idx, 0, role, self.builtin.write_single_register(u, idx, role))
    }
    fn write_multiple_coils(&self, u: UnitId, r: AddressRange, role: &str) -> Authorization {
        self.decide("wmc", 15, u, r.start, r.count, role, self.builtin.write_multiple_coils(u, r, role))
    }
    fn write_multiple_registers(&self, u: UnitId, r: AddressRange, role: &str) -> Authorization {
        self.decide("wmr", 16, u, r.start, r.count, role, self.builtin.write_multiple_registers(u, r, role))
    }
}
