//! E2/E3: drives the production client (ClientLoop::run through verif::ClientSession, or the
//! whole TCP channel task through the verif connector) under virtual time.
//! usage: e2_client <scripts.ndjson> <trace.ndjson>
#![allow(deprecated)]
use serde::Deserialize;
use serde_json::{json, Value};
use std::io::BufRead;
use std::num::NonZeroUsize;
use std::sync::atomic::{AtomicU64, Ordering};
use std::sync::{Arc, Mutex};
use std::time::Duration;
use vharness::trace::{bytes_json, Sink};
use vharness::util::*;
use vharness::vio::*;

use rodbus::client::*;
use rodbus::verif::{ClientSession, Framing};
use rodbus::*;

#[derive(Deserialize, Clone)]
struct Step {
    op: String,
    #[serde(default)]
    kind: String,
    #[serde(default)]
    r: u64,
    #[serde(default)]
    style: String,
    #[serde(default)]
    fc: u8,
    #[serde(default)]
    unit: u8,
    #[serde(default)]
    start: u32,
    #[serde(default)]
    count: u32,
    #[serde(default)]
    values: Vec<u32>,
    #[serde(default)]
    timeout: u64,
    #[serde(default)]
    bytes: Vec<u8>,
    #[serde(default)]
    pdu: Vec<u8>,
    #[serde(default)]
    txrel: i64,
    #[serde(default)]
    d: u64,
    #[serde(default)]
    level: Vec<u8>,
    #[serde(default)]
    res: String,
    #[serde(default)]
    race: bool,
    #[serde(default)]
    ok: bool,
}

#[derive(Deserialize)]
struct Scenario {
    id: u64,
    mode: String,
    framing: String,
    queue: usize,
    max_timeouts: usize,
    retry: Vec<u64>,
    #[serde(default)]
    decode: Vec<u8>,
    #[serde(default)]
    txid0: u16,
    /// mode "serial": whether the first attempts to open the port succeed
    #[serde(default)]
    port: bool,
    /// the stream takes at most this many bytes per write call (0 = whole writes)
    #[serde(default)]
    max_write: usize,
    steps: Vec<Step>,
}

#[derive(Clone)]
struct Ctx {
    sink: Sink,
    t0: tokio::time::Instant,
}

/// mode "pty" runs in real time: the specification's clock never advances there (no step waits for a timer)
static FROZEN_CLOCK: std::sync::atomic::AtomicBool = std::sync::atomic::AtomicBool::new(false);

impl Ctx {
    fn now_ms(&self) -> u64 {
        if FROZEN_CLOCK.load(Ordering::SeqCst) {
            return 0;
        }
        (tokio::time::Instant::now() - self.t0).as_millis() as u64
    }
}

fn err_class(e: &RequestError) -> (&'static str, u32) {
    match e {
        RequestError::Io(_) => ("io", 0),
        RequestError::Exception(x) => ("exc", u8::from(*x) as u32),
        RequestError::BadRequest(_) => ("badrequest", 0),
        RequestError::BadFrame(_) => ("badframe", 0),
        RequestError::BadResponse(_) => ("badresponse", 0),
        RequestError::Internal(_) => ("internal", 0),
        RequestError::ResponseTimeout => ("timeout", 0),
        RequestError::NoConnection => ("noconn", 0),
        RequestError::Shutdown => ("shutdown", 0),
    }
}

/// what a request returned, projected: values with an "indexed upward from start" flag
enum Payload {
    Bits(Vec<Indexed<bool>>),
    Regs(Vec<Indexed<u16>>),
    Echo(bool),
}

fn log_done(ctx: &Ctx, r: u64, start: u32, res: Result<Payload, RequestError>, n: u64) {
    let t = ctx.now_ms();
    match res {
        Ok(Payload::Bits(v)) => {
            let idx = v.iter().enumerate().all(|(i, x)| x.index as u32 == start + i as u32);
            ctx.sink.emit(json!({"e":"done","r":r,"class":"ok","code":0,"t":t,"n":n,"indexed":idx,
                "values": v.iter().map(|x| x.value as u32).collect::<Vec<u32>>()}));
        }
        Ok(Payload::Regs(v)) => {
            let idx = v.iter().enumerate().all(|(i, x)| x.index as u32 == start + i as u32);
            ctx.sink.emit(json!({"e":"done","r":r,"class":"ok","code":0,"t":t,"n":n,"indexed":idx,
                "values": v.iter().map(|x| x.value as u32).collect::<Vec<u32>>()}));
        }
        Ok(Payload::Echo(same)) => {
            ctx.sink.emit(json!({"e":"done","r":r,"class":"ok","code":0,"t":t,"n":n,"indexed":same,"values":[]}));
        }
        Err(e) => {
            let (c, code) = err_class(&e);
            ctx.sink.emit(json!({"e":"done","r":r,"class":c,"code":code,"t":t,"n":n,"indexed":true,"values":[],
                "detail": format!("{e:?}")}));
        }
    }
}

fn range_of(st: &Step) -> Result<AddressRange, RequestError> {
    if st.start > 65535 || st.count > 65535 {
        return Err(RequestError::BadRequest(InvalidRequest::CountTooBigForU16(st.count as usize)));
    }
    AddressRange::try_from(st.start as u16, st.count as u16).map_err(|e| e.into())
}

async fn submit_future(ctx: Ctx, ch: Channel, st: Step) {
    let param = RequestParam::new(UnitId::new(st.unit), Duration::from_millis(st.timeout));
    let res: Result<Payload, RequestError> = async {
        match st.fc {
            1 => ch.read_coils(param, range_of(&st)?).await.map(Payload::Bits),
            2 => ch.read_discrete_inputs(param, range_of(&st)?).await.map(Payload::Bits),
            3 => ch.read_holding_registers(param, range_of(&st)?).await.map(Payload::Regs),
            4 => ch.read_input_registers(param, range_of(&st)?).await.map(Payload::Regs),
            5 => {
                let req = Indexed::new(st.start as u16, st.values.first().copied().unwrap_or(0) != 0);
                ch.write_single_coil(param, req).await.map(|x| Payload::Echo(x == req))
            }
            6 => {
                let req = Indexed::new(st.start as u16, st.values.first().copied().unwrap_or(0) as u16);
                ch.write_single_register(param, req).await.map(|x| Payload::Echo(x == req))
            }
            15 => {
                let vals: Vec<bool> = st.values.iter().map(|x| *x != 0).collect();
                let req = WriteMultiple::from(st.start as u16, vals).map_err(RequestError::BadRequest)?;
                let expect = AddressRange { start: st.start as u16, count: st.values.len() as u16 };
                ch.write_multiple_coils(param, req).await.map(|x| Payload::Echo(x == expect))
            }
            _ => {
                let vals: Vec<u16> = st.values.iter().map(|x| *x as u16).collect();
                let req = WriteMultiple::from(st.start as u16, vals).map_err(RequestError::BadRequest)?;
                let expect = AddressRange { start: st.start as u16, count: st.values.len() as u16 };
                ch.write_multiple_registers(param, req).await.map(|x| Payload::Echo(x == expect))
            }
        }
    }
    .await;
    log_done(&ctx, st.r, st.start, res, 1);
}

fn bits_cb(
    ctx: Ctx,
    r: u64,
    start: u32,
    count: Arc<AtomicU64>,
) -> impl for<'a> FnOnce(Result<BitIterator<'a>, RequestError>) + Send + Sync + 'static {
    move |res: Result<BitIterator<'_>, RequestError>| {
        let n = count.fetch_add(1, Ordering::SeqCst) + 1;
        log_done(&ctx, r, start, res.map(|it| Payload::Bits(it.collect())), n);
    }
}

fn regs_cb(
    ctx: Ctx,
    r: u64,
    start: u32,
    count: Arc<AtomicU64>,
) -> impl for<'a> FnOnce(Result<RegisterIterator<'a>, RequestError>) + Send + Sync + 'static {
    move |res: Result<RegisterIterator<'_>, RequestError>| {
        let n = count.fetch_add(1, Ordering::SeqCst) + 1;
        log_done(&ctx, r, start, res.map(|it| Payload::Regs(it.collect())), n);
    }
}

async fn submit_callback(ctx: Ctx, ch: Channel, st: Step) {
    let param = RequestParam::new(UnitId::new(st.unit), Duration::from_millis(st.timeout));
    let mut cs = CallbackSession::new(ch, param);
    let count = Arc::new(AtomicU64::new(0));
    let (r, start) = (st.r, st.start);
    macro_rules! cb {
        ($map:expr) => {{
            let ctx = ctx.clone();
            let count = count.clone();
            move |res| {
                let n = count.fetch_add(1, Ordering::SeqCst) + 1;
                log_done(&ctx, r, start, $map(res), n);
            }
        }};
    }
    match st.fc {
        1 | 2 => {
            let range = match range_of(&st) {
                Ok(x) => x,
                Err(e) => return log_done(&ctx, r, start, Err(e), 1),
            };
            if st.fc == 1 {
                cs.read_coils(range, bits_cb(ctx.clone(), r, start, count.clone())).await
            } else {
                cs.read_discrete_inputs(range, bits_cb(ctx.clone(), r, start, count.clone())).await
            }
        }
        3 | 4 => {
            let range = match range_of(&st) {
                Ok(x) => x,
                Err(e) => return log_done(&ctx, r, start, Err(e), 1),
            };
            if st.fc == 3 {
                cs.read_holding_registers(range, regs_cb(ctx.clone(), r, start, count.clone())).await
            } else {
                cs.read_input_registers(range, regs_cb(ctx.clone(), r, start, count.clone())).await
            }
        }
        5 => {
            let req = Indexed::new(st.start as u16, st.values.first().copied().unwrap_or(0) != 0);
            cs.write_single_coil(req, cb!(move |res: Result<Indexed<bool>, RequestError>| res.map(|x| Payload::Echo(x == req)))).await
        }
        6 => {
            let req = Indexed::new(st.start as u16, st.values.first().copied().unwrap_or(0) as u16);
            cs.write_single_register(req, cb!(move |res: Result<Indexed<u16>, RequestError>| res.map(|x| Payload::Echo(x == req)))).await
        }
        15 => {
            let vals: Vec<bool> = st.values.iter().map(|x| *x != 0).collect();
            let expect = AddressRange { start: st.start as u16, count: st.values.len() as u16 };
            match WriteMultiple::from(st.start as u16, vals) {
                Err(e) => log_done(&ctx, r, start, Err(RequestError::BadRequest(e)), 1),
                Ok(req) => cs.write_multiple_coils(req, cb!(move |res: Result<AddressRange, RequestError>| res.map(|x| Payload::Echo(x == expect)))).await,
            }
        }
        _ => {
            let vals: Vec<u16> = st.values.iter().map(|x| *x as u16).collect();
            let expect = AddressRange { start: st.start as u16, count: st.values.len() as u16 };
            match WriteMultiple::from(st.start as u16, vals) {
                Err(e) => log_done(&ctx, r, start, Err(RequestError::BadRequest(e)), 1),
                Ok(req) => cs.write_multiple_registers(req, cb!(move |res: Result<AddressRange, RequestError>| res.map(|x| Payload::Echo(x == expect)))).await,
            }
        }
    }
}

struct Shared {
    last_tx: Mutex<Option<u16>>,
}

async fn run_scenario(sc: &Scenario, sink: &Sink) {
    if sc.mode == "task" || sc.mode == "serial" {
        return run_task_scenario(sc, sink).await;
    }
    let ctx = Ctx {
        sink: sink.clone(),
        t0: tokio::time::Instant::now(),
    };
    sink.emit(json!({"e":"cfg","id":sc.id,"mode":sc.mode,"framing":sc.framing,"queue":sc.queue,
        "max_timeouts":sc.max_timeouts,"retry":sc.retry,"txid0":sc.txid0}));
    let framing = if sc.framing == "rtu" { Framing::Rtu } else { Framing::Tcp };
    let (channel, mut session) = ClientSession::new(
        framing,
        sc.queue,
        decode_level(&sc.decode),
        NonZeroUsize::new(sc.max_timeouts),
    );
    session.set_next_tx_id(sc.txid0);
    let mut channel = Some(channel);
    let polls = Arc::new(AtomicU64::new(0));
    let shared = Arc::new(Shared { last_tx: Mutex::new(None) });

    type Sess = ClientSession;
    let max_write = sc.max_write;
    let spawn = |mut session: Sess, sink: &Sink, polls: &Arc<AtomicU64>| {
        let (io, ioh) = script_io(sink.clone());
        ioh.record_tx(true);
        ioh.set_max_write(max_write);
        let fut = async move {
            let r = session.run(Box::new(io)).await;
            (session, r)
        };
        (tokio::spawn(PollCounted::new(fut, polls.clone())), ioh)
    };
    let (mut task, mut ioh) = spawn(session, sink, &polls);
    let mut parked: Option<Sess> = None;
    let mut gone = false;
    let mut outbox: Vec<u8> = Vec::new();

    for st in &sc.steps {
        match st.op.as_str() {
            "submit" => {
                if channel.is_none() {
                    continue;
                }
                sink.emit(json!({"e":"submit","r":st.r,"style":st.style,"fc":st.fc,"unit":st.unit,"start":st.start,
                    "count": if st.fc == 15 || st.fc == 16 { st.values.len() as u32 } else if st.fc == 5 || st.fc == 6 { 1 } else { st.count },
                    "values":st.values,"timeout":st.timeout}));
                if let Some(ch) = channel.as_ref() {
                    if st.style == "callback" {
                        tokio::spawn(submit_callback(ctx.clone(), ch.clone(), st.clone()));
                    } else {
                        tokio::spawn(submit_future(ctx.clone(), ch.clone(), st.clone()));
                    }
                }
            }
            "reply" | "peer" => {
                let bytes = if st.op == "reply" {
                    // the tx id of the last transmitted request (+ txrel), filled in mechanically
                    for f in ioh.take_tx() {
                        if sc.framing == "tcp" && f.len() >= 2 {
                            *shared.last_tx.lock().unwrap() = Some(((f[0] as u16) << 8) | f[1] as u16);
                        }
                    }
                    if sc.framing == "tcp" {
                        let base = shared.last_tx.lock().unwrap().unwrap_or(0) as i64;
                        let tx = (base + st.txrel).rem_euclid(65536) as u16;
                        let len = (st.pdu.len() + 1) as u16;
                        let mut b = vec![(tx >> 8) as u8, tx as u8, 0, 0, (len >> 8) as u8, len as u8, st.unit];
                        b.extend_from_slice(&st.pdu);
                        b
                    } else {
                        let mut b = vec![st.unit];
                        b.extend_from_slice(&st.pdu);
                        let c = crc16(&b);
                        b.push(c as u8);
                        b.push((c >> 8) as u8);
                        b
                    }
                } else {
                    st.bytes.clone()
                };
                if st.op == "reply" && st.kind == "hold" {
                    // computed now, delivered later by `deliver` steps (possibly in pieces)
                    outbox.extend_from_slice(&bytes);
                    continue;
                }
                sink.emit(json!({"e":"peer","bytes":bytes_json(&bytes)}));
                ioh.push(&bytes);
            }
            "deliver" => {
                let n = if st.d == 0 { outbox.len() } else { std::cmp::min(st.d as usize, outbox.len()) };
                if n == 0 {
                    continue;
                }
                let bytes: Vec<u8> = outbox.drain(..n).collect();
                sink.emit(json!({"e":"peer","bytes":bytes_json(&bytes)}));
                ioh.push(&bytes);
            }
            "tick" => {
                sink.emit(json!({"e":"tick","d":st.d}));
                tokio::time::advance(Duration::from_millis(st.d)).await;
            }
            "whold" => {
                sink.emit(json!({"e":"whold","on":st.ok}));
                ioh.hold_writes(st.ok);
            }
            "eof" => {
                sink.emit(json!({"e":"eof"}));
                ioh.eof();
            }
            "rerr" => {
                sink.emit(json!({"e":"rerr"}));
                ioh.read_error(io_kind(&st.kind));
            }
            "werr" => {
                sink.emit(json!({"e":"werr"}));
                ioh.write_error(io_kind(&st.kind));
            }
            "cmd" => match st.kind.as_str() {
                "enable" | "disable" | "decode" | "shutdown" => {
                    if channel.is_none() {
                        continue;
                    }
                    sink.emit(json!({"e":"cmd","kind":st.kind}));
                    if let Some(ch) = channel.as_ref() {
                        let ch = ch.clone();
                        let kind = st.kind.clone();
                        let level = decode_level(&st.level);
                        tokio::spawn(async move {
                            let _ = match kind.as_str() {
                                "enable" => ch.enable().await,
                                "disable" => ch.disable().await,
                                "decode" => ch.set_decode_level(level).await,
                                _ => ch.shutdown().await,
                            };
                        });
                    }
                }
                "drop" => {
                    sink.emit(json!({"e":"cmd","kind":"drop"}));
                    channel = None;
                }
                "abort" => {
                    sink.emit(json!({"e":"cmd","kind":"abort"}));
                    task.abort();
                    parked = None;
                    gone = true;
                }
                "new_conn" => {
                    if let Some(sess) = parked.take() {
                        sink.emit(json!({"e":"cmd","kind":"new_conn"}));
                        let (t, h) = spawn(sess, sink, &polls);
                        task = t;
                        ioh = h;
                    } else {
                        continue;
                    }
                }
                _ => {}
            },
            _ => {}
        }
        if !settle(sink, std::slice::from_ref(&polls)).await {
            sink.emit(json!({"e":"stuck","why":"client task keeps being polled without becoming idle"}));
            task.abort();
            return;
        }
        if parked.is_none() && !gone && task.is_finished() {
            match (&mut task).await {
                Ok((sess, reason)) => {
                    let reason = reason.split('(').next().unwrap_or("").to_string();
                    let reason = if reason == "IoError" { "Io".to_string() } else { reason };
                    sink.emit(json!({"e":"end","reason":reason}));
                    parked = Some(sess);
                }
                Err(e) => {
                    gone = true;
                    if e.is_panic() {
                        sink.emit(json!({"e":"panic","msg":take_panic().unwrap_or_default()}));
                    }
                }
            }
            if !settle(sink, std::slice::from_ref(&polls)).await {
                sink.emit(json!({"e":"stuck","why":"not idle after session end"}));
                return;
            }
        }
        sink.emit(json!({"e":"q"}));
    }

    // end of script: the task and every handle go away; whatever is pending must complete (Shutdown)
    sink.emit(json!({"e":"cmd","kind":"abort"}));
    task.abort();
    drop(parked);
    let _ = settle(sink, std::slice::from_ref(&polls)).await;
    drop(channel);
    let _ = settle(sink, std::slice::from_ref(&polls)).await;
    sink.emit(json!({"e":"q"}));
}


// ------------------------------------------------------------------ mode "task": the whole TCP channel task
struct RecListener {
    ctx: Ctx,
}

impl Listener<ClientState> for RecListener {
    fn update(&mut self, value: ClientState) -> MaybeAsync<()> {
        let (state, d) = match value {
            ClientState::Disabled => ("Disabled", 0),
            ClientState::Connecting => ("Connecting", 0),
            ClientState::Connected => ("Connected", 0),
            ClientState::WaitAfterFailedConnect(d) => ("WaitAfterFailedConnect", d.as_millis() as u64),
            ClientState::WaitAfterDisconnect(d) => ("WaitAfterDisconnect", d.as_millis() as u64),
            ClientState::Shutdown => ("Shutdown", 0),
        };
        self.ctx
            .sink
            .emit(json!({"e":"listener","state":state,"d":d,"t":self.ctx.now_ms()}));
        MaybeAsync::ready(())
    }
}

struct RecPortListener {
    ctx: Ctx,
}

/// pty mode: only tells the driver that the device has been opened
struct PtyOpenFlag {
    open: Arc<std::sync::atomic::AtomicBool>,
}

impl Listener<PortState> for PtyOpenFlag {
    fn update(&mut self, value: PortState) -> MaybeAsync<()> {
        self.open.store(matches!(value, PortState::Open), Ordering::SeqCst);
        MaybeAsync::ready(())
    }
}

impl Listener<PortState> for RecPortListener {
    fn update(&mut self, value: PortState) -> MaybeAsync<()> {
        let (state, d) = match value {
            PortState::Disabled => ("Disabled", 0),
            PortState::Wait(d) => ("Wait", d.as_millis() as u64),
            PortState::Open => ("Open", 0),
            PortState::Shutdown => ("Shutdown", 0),
        };
        self.ctx
            .sink
            .emit(json!({"e":"listener","state":state,"d":d,"t":self.ctx.now_ms()}));
        MaybeAsync::ready(())
    }
}

/// what `serial::open` reaches with the hooks compiled in: the script decides the outcome
struct HOpener {
    ctx: Ctx,
    ok: Arc<std::sync::atomic::AtomicBool>,
    opened: Arc<Mutex<Option<IoHandle>>>,
}

impl rodbus::verif::PortOpener for HOpener {
    fn open(&self, _path: &str) -> std::io::Result<Box<dyn rodbus::verif::VerifIo>> {
        self.ctx.sink.emit(json!({"e":"attempt","t":self.ctx.now_ms()}));
        if self.ok.load(Ordering::SeqCst) {
            let (io, h) = script_io(self.ctx.sink.clone());
            *self.opened.lock().unwrap() = Some(h);
            Ok(Box::new(io))
        } else {
            Err(std::io::Error::from(std::io::ErrorKind::NotFound))
        }
    }
}

type ConnResult = std::io::Result<Box<dyn rodbus::verif::VerifIo>>;

struct HConnector {
    ctx: Ctx,
    pending: Arc<Mutex<Option<tokio::sync::oneshot::Sender<ConnResult>>>>,
}

impl rodbus::verif::Connector for HConnector {
    fn connect(&self) -> std::pin::Pin<Box<dyn std::future::Future<Output = ConnResult> + Send + '_>> {
        self.ctx.sink.emit(json!({"e":"attempt","t":self.ctx.now_ms()}));
        let (tx, rx) = tokio::sync::oneshot::channel();
        *self.pending.lock().unwrap() = Some(tx);
        Box::pin(async move {
            match rx.await {
                Ok(r) => r,
                Err(_) => Err(std::io::Error::from(std::io::ErrorKind::ConnectionAborted)),
            }
        })
    }
}

async fn run_task_scenario(sc: &Scenario, sink: &Sink) {
    let ctx = Ctx {
        sink: sink.clone(),
        t0: tokio::time::Instant::now(),
    };
    let serial = sc.mode == "serial";
    if serial {
        sink.emit(json!({"e":"cfg","id":sc.id,"mode":sc.mode,"framing":"rtu","queue":sc.queue,
            "max_timeouts":0,"retry":sc.retry,"txid0":0,"port":sc.port}));
    } else {
        sink.emit(json!({"e":"cfg","id":sc.id,"mode":sc.mode,"framing":sc.framing,"queue":sc.queue,
            "max_timeouts":sc.max_timeouts,"retry":sc.retry,"txid0":-1}));
    }
    let port_ok = Arc::new(std::sync::atomic::AtomicBool::new(sc.port));
    let opened: Arc<Mutex<Option<IoHandle>>> = Arc::new(Mutex::new(None));
    let pending = Arc::new(Mutex::new(None));
    let connector = Arc::new(HConnector {
        ctx: ctx.clone(),
        pending: pending.clone(),
    });
    let options = ClientOptions::default()
        .max_queued_requests(sc.queue)
        .decode_level(decode_level(&sc.decode))
        .max_response_timeouts(NonZeroUsize::new(sc.max_timeouts));
    let retry = doubling_retry_strategy(
        Duration::from_millis(sc.retry[0]),
        Duration::from_millis(sc.retry[1]),
    );
    let (channel, task) = if serial {
        rodbus::verif::install_port_opener(Some(Arc::new(HOpener {
            ctx: ctx.clone(),
            ok: port_ok.clone(),
            opened: opened.clone(),
        })));
        create_rtu_client_task(
            "/dev/verif",
            SerialSettings::default(),
            sc.queue,
            retry,
            decode_level(&sc.decode),
            Some(Box::new(RecPortListener { ctx: ctx.clone() })),
        )
    } else {
        rodbus::verif::tcp_client_task(
            connector,
            retry,
            Box::new(RecListener { ctx: ctx.clone() }),
            options,
        )
    };
    let mut channel = Some(channel);
    let polls = Arc::new(AtomicU64::new(0));
    let task = tokio::spawn(PollCounted::new(task.run(), polls.clone()));
    let mut ioh: Option<IoHandle> = None;
    let mut last_tx: Option<u16> = None;
    let mut outbox: Vec<u8> = Vec::new();
    // the task starts by itself
    if !settle(sink, std::slice::from_ref(&polls)).await {
        sink.emit(json!({"e":"stuck","why":"task never idle after start"}));
        return;
    }
    sink.emit(json!({"e":"q"}));

    for st in &sc.steps {
        if let Some(h) = opened.lock().unwrap().take() {
            // the serial task opened a new port since the last step
            outbox.clear();
            ioh = Some(h);
        }
        match st.op.as_str() {
            "port" => {
                if !serial {
                    continue;
                }
                sink.emit(json!({"e":"port","ok":st.ok}));
                port_ok.store(st.ok, Ordering::SeqCst);
            }
            "submit" => {
                let ch = match channel.as_ref() {
                    Some(c) => c.clone(),
                    None => continue,
                };
                sink.emit(json!({"e":"submit","r":st.r,"style":st.style,"fc":st.fc,"unit":st.unit,"start":st.start,
                    "count": if st.fc == 15 || st.fc == 16 { st.values.len() as u32 } else if st.fc == 5 || st.fc == 6 { 1 } else { st.count },
                    "values":st.values,"timeout":st.timeout}));
                if st.style == "callback" {
                    tokio::spawn(submit_callback(ctx.clone(), ch, st.clone()));
                } else {
                    tokio::spawn(submit_future(ctx.clone(), ch, st.clone()));
                }
            }
            "reply" | "peer" | "deliver" => {
                let h = match ioh.as_ref() {
                    Some(h) if !h.is_dropped() => h.clone(),
                    _ => continue,
                };
                let bytes = if st.op == "reply" && serial {
                    let mut b = vec![st.unit];
                    b.extend_from_slice(&st.pdu);
                    let c = crc16(&b);
                    b.push(c as u8);
                    b.push((c >> 8) as u8);
                    if st.kind == "hold" {
                        outbox.extend_from_slice(&b);
                        continue;
                    }
                    b
                } else if st.op == "reply" {
                    for f in h.take_tx() {
                        if f.len() >= 2 {
                            last_tx = Some(((f[0] as u16) << 8) | f[1] as u16);
                        }
                    }
                    let tx = (last_tx.unwrap_or(0) as i64 + st.txrel).rem_euclid(65536) as u16;
                    let len = (st.pdu.len() + 1) as u16;
                    let mut b = vec![(tx >> 8) as u8, tx as u8, 0, 0, (len >> 8) as u8, len as u8, st.unit];
                    b.extend_from_slice(&st.pdu);
                    if st.kind == "hold" {
                        outbox.extend_from_slice(&b);
                        continue;
                    }
                    b
                } else if st.op == "deliver" {
                    let n = if st.d == 0 { outbox.len() } else { std::cmp::min(st.d as usize, outbox.len()) };
                    if n == 0 {
                        continue;
                    }
                    outbox.drain(..n).collect()
                } else {
                    st.bytes.clone()
                };
                sink.emit(json!({"e":"peer","bytes":bytes_json(&bytes)}));
                h.push(&bytes);
            }
            "tick" => {
                sink.emit(json!({"e":"tick","d":st.d}));
                tokio::time::advance(Duration::from_millis(st.d)).await;
            }
            "eof" | "rerr" => {
                let h = match ioh.as_ref() {
                    Some(h) if !h.is_dropped() => h.clone(),
                    _ => continue,
                };
                sink.emit(json!({"e":"eof"}));
                if st.op == "eof" {
                    h.eof()
                } else {
                    h.read_error(io_kind(&st.kind))
                }
            }
            "werr" => {
                let h = match ioh.as_ref() {
                    Some(h) if !h.is_dropped() => h.clone(),
                    _ => continue,
                };
                sink.emit(json!({"e":"werr"}));
                h.write_error(io_kind(&st.kind));
            }
            "connector" => {
                if serial {
                    continue;
                }
                let tx = match pending.lock().unwrap().take() {
                    Some(tx) if !tx.is_closed() => tx,
                    _ => continue,
                };
                sink.emit(json!({"e":"connector","res":st.res,"race":st.race}));
                if st.res == "ok" {
                    let (io, h) = script_io(sink.clone());
                    h.record_tx(true);
                    outbox.clear();
                    ioh = Some(h);
                    let _ = tx.send(Ok(Box::new(io)));
                } else {
                    let _ = tx.send(Err(std::io::Error::from(std::io::ErrorKind::ConnectionRefused)));
                }
            }
            "cmd" => match st.kind.as_str() {
                "enable" | "disable" | "decode" | "shutdown" => {
                    let ch = match channel.as_ref() {
                        Some(c) => c.clone(),
                        None => continue,
                    };
                    sink.emit(json!({"e":"cmd","kind":st.kind}));
                    let kind = st.kind.clone();
                    let level = decode_level(&st.level);
                    if st.race {
                        // in the queue before anything else runs (capacity permitting)
                        let _ = match kind.as_str() {
                            "enable" => ch.enable().await,
                            "disable" => ch.disable().await,
                            "decode" => ch.set_decode_level(level).await,
                            _ => ch.shutdown().await,
                        };
                        continue;
                    }
                    tokio::spawn(async move {
                        let _ = match kind.as_str() {
                            "enable" => ch.enable().await,
                            "disable" => ch.disable().await,
                            "decode" => ch.set_decode_level(level).await,
                            _ => ch.shutdown().await,
                        };
                    });
                }
                "drop" => {
                    sink.emit(json!({"e":"cmd","kind":"drop"}));
                    channel = None;
                }
                "abort" => {
                    sink.emit(json!({"e":"cmd","kind":"abort"}));
                    task.abort();
                }
                _ => continue,
            },
            _ => continue,
        }
        if st.race && st.op != "connector" {
            // the next step happens in the same instant: no settling in between
            continue;
        }
        if !settle(sink, std::slice::from_ref(&polls)).await {
            sink.emit(json!({"e":"stuck","why":"client task keeps being polled without becoming idle"}));
            task.abort();
            return;
        }
        if task.is_finished() {
            if let Some(msg) = take_panic() {
                sink.emit(json!({"e":"panic","msg":msg}));
            }
        }
        sink.emit(json!({"e":"q"}));
    }
    sink.emit(json!({"e":"cmd","kind":"abort"}));
    task.abort();
    let _ = settle(sink, std::slice::from_ref(&polls)).await;
    drop(channel);
    let _ = settle(sink, std::slice::from_ref(&polls)).await;
    rodbus::verif::install_port_opener(None);
    sink.emit(json!({"e":"q"}));
}

// ------------------------------------------------------------------ mode "pty": the RTU channel task on a real serial device
/// The production RTU channel task (create_rtu_client_task) opens the slave side of a pseudo-terminal through
/// tokio_serial (no port opener is installed); the harness is the bus on the master side. Recorded with the
/// events of the session-level engine; nothing in these scripts waits for a timer.
async fn run_pty_scenario(sc: &Scenario, sink: &Sink) {
    use vharness::pty::*;
    FROZEN_CLOCK.store(true, Ordering::SeqCst);
    let ctx = Ctx { sink: sink.clone(), t0: tokio::time::Instant::now() };
    sink.emit(json!({"e":"cfg","id":sc.id,"mode":"session","framing":"rtu","queue":sc.queue,
        "max_timeouts":0,"retry":sc.retry,"txid0":0}));
    let pty = match open_pty() {
        Some(p) => p,
        None => {
            sink.emit(json!({"e":"stuck","why":"no pseudo-terminal available"}));
            return;
        }
    };
    let port_open = Arc::new(std::sync::atomic::AtomicBool::new(false));
    let (channel, task) = create_rtu_client_task(
        &pty.path,
        SerialSettings::default(),
        sc.queue,
        doubling_retry_strategy(Duration::from_millis(50), Duration::from_millis(50)),
        decode_level(&sc.decode),
        Some(Box::new(PtyOpenFlag { open: port_open.clone() })),
    );
    let task = tokio::spawn(task.run());
    // quiescence is decided by what the step must cause, not by a clock: a submitted request is either put on the bus or
    // completed (rejected); a reply completes the outstanding request.  Only then does the silence window start -- a
    // loaded machine may take long to schedule the channel task, and a marker written before it ran would be wrong.
    let quiet = |got: &mut Vec<u8>, must_react: bool, before: u64| {
        let t0 = std::time::Instant::now();
        if must_react {
            while got.is_empty() && sink.progress() == before && t0.elapsed() < Duration::from_secs(15) {
                pty.read_some(got);
                std::thread::sleep(Duration::from_millis(1));
            }
        }
        pty.until_quiet(&|| sink.progress(), Duration::from_millis(50), got);
    };
    for st in &sc.steps {
        let mut must_react = false;
        let before;
        match st.op.as_str() {
            "cmd" if st.kind == "enable" => {
                sink.emit(json!({"e":"cmd","kind":"enable"}));
                let _ = channel.enable().await;
                // the task opens and configures the device before anything is put on the bus
                let t0 = std::time::Instant::now();
                while !port_open.load(Ordering::SeqCst) && t0.elapsed() < Duration::from_secs(15) {
                    tokio::time::sleep(Duration::from_millis(5)).await;
                }
                tokio::time::sleep(Duration::from_millis(50)).await;
                before = sink.progress();
            }
            "cmd" if st.kind == "decode" => {
                sink.emit(json!({"e":"cmd","kind":"decode"}));
                let _ = channel.set_decode_level(decode_level(&st.level)).await;
                before = sink.progress();
            }
            "submit" => {
                must_react = true;
                sink.emit(json!({"e":"submit","r":st.r,"style":st.style,"fc":st.fc,"unit":st.unit,"start":st.start,
                    "count": if st.fc == 15 || st.fc == 16 { st.values.len() as u32 } else if st.fc == 5 || st.fc == 6 { 1 } else { st.count },
                    "values":st.values,"timeout":st.timeout}));
                before = sink.progress();
                if st.style == "callback" {
                    tokio::spawn(submit_callback(ctx.clone(), channel.clone(), st.clone()));
                } else {
                    tokio::spawn(submit_future(ctx.clone(), channel.clone(), st.clone()));
                }
            }
            "reply" | "peer" => {
                // (the scripts of this mode answer every transmitted request with a well-formed reply or exception)
                must_react = st.op == "reply";
                let bytes = if st.op == "reply" {
                    let mut b = vec![st.unit];
                    b.extend_from_slice(&st.pdu);
                    let c = crc16(&b);
                    b.push(c as u8);
                    b.push((c >> 8) as u8);
                    b
                } else {
                    st.bytes.clone()
                };
                sink.emit(json!({"e":"peer","bytes":bytes_json(&bytes)}));
                before = sink.progress();
                if !pty.write_all(&bytes) {
                    sink.emit(json!({"e":"stuck","why":"the bus does not take the bytes"}));
                    return;
                }
            }
            _ => continue,
        }
        let mut got = Vec::new();
        // (the submitting tasks run on other worker threads; block this one while watching the bus)
        tokio::task::block_in_place(|| quiet(&mut got, must_react, before));
        if !got.is_empty() {
            sink.emit(json!({"e":"tx","bytes":bytes_json(&got)}));
        }
        sink.emit(json!({"e":"q"}));
    }
    sink.emit(json!({"e":"cmd","kind":"abort"}));
    task.abort();
    tokio::time::sleep(Duration::from_millis(50)).await;
    drop(channel);
    tokio::time::sleep(Duration::from_millis(50)).await;
    sink.emit(json!({"e":"q"}));
    FROZEN_CLOCK.store(false, Ordering::SeqCst);
}

fn crc16(data: &[u8]) -> u16 {
    let mut crc: u16 = 0xFFFF;
    for b in data {
        crc ^= *b as u16;
        for _ in 0..8 {
            crc = if crc & 1 != 0 { (crc >> 1) ^ 0xA001 } else { crc >> 1 };
        }
    }
    crc
}

fn main() {
    let args: Vec<String> = std::env::args().collect();
    let scripts = std::fs::File::open(&args[1]).expect("scripts");
    let out = std::fs::File::create(&args[2]).expect("trace");
    let sink = Sink::new(Box::new(std::io::BufWriter::new(out)));
    install_panic_hook();
    install_tracing();
    let wd = Watchdog::start(sink.clone(), 20);
    for line in std::io::BufReader::new(scripts).lines() {
        let line = line.unwrap();
        if line.trim().is_empty() {
            continue;
        }
        let sc: Scenario = serde_json::from_str(&line).expect("scenario json");
        wd.scenario(sc.id);
        if sc.mode == "pty" {
            let rt = tokio::runtime::Builder::new_multi_thread().worker_threads(3).enable_all().build().unwrap();
            rt.block_on(run_pty_scenario(&sc, &sink));
            rt.shutdown_timeout(Duration::from_millis(300));
            continue;
        }
        // a fresh runtime per scenario: the paused clock starts at zero
        let rt = tokio::runtime::Builder::new_current_thread()
            .enable_time()
            .start_paused(true)
            .build()
            .unwrap();
        rt.block_on(run_scenario(&sc, &sink));
        drop(rt);
    }
    wd.done();
    sink.flush();
    eprintln!("e2_client: {} trace lines", sink.lines());
    let _: Option<Value> = None;
}
