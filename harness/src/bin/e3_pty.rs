//! Black-box serial slice: the production RTU server task on a REAL serial device -- the slave side of a
//! pseudo-terminal opened by tokio_serial with the configured settings -- while the harness plays the bus on the
//! master side. No hook is involved (no port opener is installed, so `serial::open` takes the operating system path).
//! The recording uses the events of the session-level engine and is judged by ServerSessionTrace.tla.
//! usage: e3_pty <scripts.ndjson> <trace.ndjson>
use serde::Deserialize;
use serde_json::json;
use std::io::BufRead;
use std::time::{Duration, Instant};
use vharness::handlers::*;
use vharness::pty::*;
use vharness::trace::{bytes_json, Sink};
use vharness::util::*;

use rodbus::server::*;
use rodbus::*;

#[derive(Deserialize)]
struct HoleJ {
    u: u8,
    t: u8,
    a: u16,
    code: u8,
}

#[derive(Deserialize)]
struct Step {
    op: String,
    #[serde(default)]
    bytes: Vec<u8>,
    #[serde(default)]
    level: Vec<u8>,
}

#[derive(Deserialize)]
struct Scenario {
    id: u64,
    units: Vec<u8>,
    #[serde(default)]
    decode: Vec<u8>,
    seed: u32,
    #[serde(default)]
    holes: Vec<HoleJ>,
    #[serde(default)]
    settings: Vec<String>, // [data_bits, flow, parity, stop] by name; baud in `baud`
    #[serde(default)]
    baud: u32,
    /// "" = a script judged by ServerSessionTrace; "spacing" = the silent interval between transmissions (SerialTiming)
    #[serde(default)]
    kind: String,
    #[serde(default)]
    steps: Vec<Step>,
}

fn settings_of(sc: &Scenario) -> SerialSettings {
    let mut s = SerialSettings::default();
    if sc.baud > 0 {
        s.baud_rate = sc.baud;
    }
    if sc.settings.len() == 4 {
        s.data_bits = match sc.settings[0].as_str() {
            "Seven" => DataBits::Seven,
            _ => DataBits::Eight,
        };
        s.flow_control = match sc.settings[1].as_str() {
            "Software" => FlowControl::Software,
            "Hardware" => FlowControl::Hardware,
            _ => FlowControl::None,
        };
        s.parity = match sc.settings[2].as_str() {
            "Odd" => Parity::Odd,
            "Even" => Parity::Even,
            _ => Parity::None,
        };
        s.stop_bits = match sc.settings[3].as_str() {
            "Two" => StopBits::Two,
            _ => StopBits::One,
        };
    }
    s
}

fn run_scenario(sc: &Scenario, sink: &Sink, rt: &tokio::runtime::Runtime) {
    let holes: Vec<Hole> = sc.holes.iter().map(|h| Hole { u: h.u, t: h.t, a: h.a, code: h.code }).collect();
    sink.emit(json!({
        "e":"cfg","id":sc.id,"framing":"rtu","units":sc.units,"seed":sc.seed,
        "auth": json!({"policy":"none","seed":0,"role":""}),
        "holes": sc.holes.iter().map(|h| json!({"u":h.u,"t":h.t,"a":h.a,"code":h.code})).collect::<Vec<_>>(),
    }));
    let pty = match open_pty() {
        Some(p) => p,
        None => {
            sink.emit(json!({"e":"stuck","why":"no pseudo-terminal available"}));
            return;
        }
    };
    let mut map = ServerHandlerMap::new();
    for u in &sc.units {
        map.add(UnitId::new(*u), DbHandler::new(*u, sc.seed, &holes, sink.clone()).wrap());
    }
    let (handle, task) = create_rtu_server_task(
        &pty.path,
        settings_of(sc),
        doubling_retry_strategy(Duration::from_millis(50), Duration::from_millis(50)),
        map,
        decode_level(&sc.decode),
    );
    let mut handle = handle;
    let join = rt.spawn(task.run());
    // the task opens and configures the device (raw mode, no echo) before anything is put on the bus
    if !pty.wait_configured(Duration::from_secs(15)) {
        sink.emit(json!({"e":"stuck","why":"the device was not opened and configured"}));
        return;
    }
    std::thread::sleep(Duration::from_millis(30));
    let mut stray = Vec::new();
    pty.read_some(&mut stray);

    for st in &sc.steps {
        match st.op.as_str() {
            "rx" => {
                sink.emit(json!({"e":"rx","bytes":bytes_json(&st.bytes)}));
                if !pty.write_all(&st.bytes) {
                    sink.emit(json!({"e":"stuck","why":"the bus does not take the bytes"}));
                    return;
                }
            }
            "decode" => {
                sink.emit(json!({"e":"cmd","kind":"decode","level":st.level}));
                let lv = decode_level(&st.level);
                let _ = rt.block_on(handle.set_decode_level(lv));
            }
            _ => continue,
        }
        let mut got = Vec::new();
        pty.until_quiet(&|| sink.progress(), Duration::from_millis(60), &mut got);
        if !got.is_empty() {
            sink.emit(json!({"e":"tx","bytes":bytes_json(&got)}));
        }
        sink.emit(json!({"e":"q","zero_space_reads":0}));
    }
    sink.emit(json!({"e":"cmd","kind":"final_shutdown"}));
    let _ = rt.block_on(handle.shutdown());
    let ended = rt.block_on(async { tokio::time::timeout(Duration::from_secs(3), join).await });
    match ended {
        Ok(Ok(())) => sink.emit(json!({"e":"end","reason":"Shutdown","detail":"","unread":0})),
        Ok(Err(e)) => sink.emit(json!({"e":"panic","msg":take_panic().unwrap_or_else(|| format!("{e}"))})),
        Err(_) => sink.emit(json!({"e":"stuck","why":"the RTU server task did not end after shutdown"})),
    }
    sink.emit(json!({"e":"q","zero_space_reads":0}));
}

fn crc16(data: &[u8]) -> u16 {
    let mut crc: u16 = 0xFFFF;
    for b in data {
        crc ^= *b as u16;
        for _ in 0..8 {
            crc = if crc & 1 != 0 { (crc >> 1) ^ 0xA001 } else { crc >> 1 };
        }
    }
    crc
}

/// several requests in one write on a slow line: when has each reply arrived?
fn run_spacing(sc: &Scenario, sink: &Sink, rt: &tokio::runtime::Runtime) {
    let frames = 3usize;
    let pty = match open_pty() {
        Some(p) => p,
        None => {
            sink.emit(json!({"e":"stuck","why":"no pseudo-terminal available"}));
            return;
        }
    };
    let mut map = ServerHandlerMap::new();
    map.add(UnitId::new(1), DbHandler::new(1, sc.seed, &[], Sink::null()).wrap());
    let (handle, task) = create_rtu_server_task(
        &pty.path,
        settings_of(sc),
        doubling_retry_strategy(Duration::from_millis(50), Duration::from_millis(50)),
        map,
        decode_level(&sc.decode),
    );
    let mut handle = handle;
    let join = rt.spawn(task.run());
    if !pty.wait_configured(Duration::from_secs(15)) {
        sink.emit(json!({"e":"stuck","why":"the device was not opened and configured"}));
        return;
    }
    std::thread::sleep(Duration::from_millis(30));
    let mut bus = Vec::new();
    for k in 0..frames {
        // read one holding register at address k: the reply is 7 bytes
        let mut f = vec![1u8, 3, 0, k as u8, 0, 1];
        let c = crc16(&f);
        f.push(c as u8);
        f.push((c >> 8) as u8);
        bus.extend_from_slice(&f);
    }
    if !pty.write_all(&bus) {
        sink.emit(json!({"e":"stuck","why":"the bus does not take the bytes"}));
        return;
    }
    let t0 = Instant::now();
    let mut got = Vec::new();
    let mut at: Vec<u128> = Vec::new();
    while at.len() < frames && t0.elapsed() < Duration::from_secs(20) {
        pty.read_some(&mut got);
        while at.len() < frames && got.len() >= 7 * (at.len() + 1) {
            at.push(t0.elapsed().as_micros());
        }
        std::thread::sleep(Duration::from_micros(500));
    }
    let gaps: Vec<u64> = at.windows(2).map(|w| (w[1] - w[0]) as u64).collect();
    sink.emit(json!({"e":"spacing","baud":sc.baud,"frames":at.len(),"expected_frames":frames,"gaps_us":gaps}));
    let _ = rt.block_on(handle.shutdown());
    let _ = rt.block_on(async { tokio::time::timeout(Duration::from_secs(3), join).await });
}

fn main() {
    let args: Vec<String> = std::env::args().collect();
    let scripts = std::fs::File::open(&args[1]).expect("scripts");
    let out = std::fs::File::create(&args[2]).expect("trace");
    let sink = Sink::new(Box::new(std::io::BufWriter::new(out)));
    install_panic_hook();
    install_tracing();
    let wd = Watchdog::start(sink.clone(), 60);
    let rt = tokio::runtime::Builder::new_multi_thread().worker_threads(2).enable_all().build().unwrap();
    let mut n = 0u64;
    for line in std::io::BufReader::new(scripts).lines() {
        let line = line.unwrap();
        if line.trim().is_empty() {
            continue;
        }
        let sc: Scenario = serde_json::from_str(&line).expect("scenario json");
        wd.scenario(sc.id);
        if sc.kind == "spacing" {
            run_spacing(&sc, &sink, &rt);
            n += 1;
            continue;
        }
        run_scenario(&sc, &sink, &rt);
        n += 1;
    }
    wd.done();
    sink.flush();
    eprintln!("e3_pty: {} scenarios, {} trace lines", n, sink.lines());
}
