//! E1 (task level): drives the production RTU server task (RtuServerTask::run through
//! create_rtu_server_task) under virtual time. The serial port is provided by the verif-hooks
//! port opener: the script decides whether an attempt to open it succeeds, what arrives on it
//! and when it fails.
//! usage: e1_rtutask <scripts.ndjson> <trace.ndjson>
use serde::Deserialize;
use serde_json::json;
use std::io::BufRead;
use std::sync::atomic::{AtomicBool, AtomicU64, Ordering};
use std::sync::{Arc, Mutex};
use std::time::Duration;
use vharness::handlers::*;
use vharness::trace::{bytes_json, Sink};
use vharness::util::*;
use vharness::vio::*;

use rodbus::server::*;
use rodbus::*;

#[derive(Deserialize)]
struct HoleJ {
    u: u8,
    t: u8,
    a: u16,
    code: u8,
}

#[derive(Deserialize)]
struct Step {
    op: String,
    #[serde(default)]
    bytes: Vec<u8>,
    #[serde(default)]
    level: Vec<u8>,
    #[serde(default)]
    kind: String,
    #[serde(default)]
    d: u64,
    #[serde(default)]
    ok: bool,
}

#[derive(Deserialize)]
struct Scenario {
    id: u64,
    units: Vec<u8>,
    #[serde(default)]
    decode: Vec<u8>,
    seed: u32,
    #[serde(default)]
    holes: Vec<HoleJ>,
    retry: Vec<u64>,
    port: bool,
    steps: Vec<Step>,
}

struct Opener {
    sink: Sink,
    t0: tokio::time::Instant,
    ok: Arc<AtomicBool>,
    current: Arc<Mutex<Option<IoHandle>>>,
}

impl rodbus::verif::PortOpener for Opener {
    fn open(&self, _path: &str) -> std::io::Result<Box<dyn rodbus::verif::VerifIo>> {
        let t = (tokio::time::Instant::now() - self.t0).as_millis() as u64;
        let ok = self.ok.load(Ordering::SeqCst);
        // what was sent into the previous port and never read is gone with it
        let lost = self
            .current
            .lock()
            .unwrap()
            .take()
            .map(|h| h.pending_bytes())
            .unwrap_or(0);
        self.sink.emit(json!({"e":"open","ok":ok,"t":t,"lost":lost}));
        if ok {
            let (io, h) = script_io(self.sink.clone());
            *self.current.lock().unwrap() = Some(h);
            Ok(Box::new(io))
        } else {
            Err(std::io::Error::from(std::io::ErrorKind::NotFound))
        }
    }
}

async fn run_scenario(sc: &Scenario, sink: &Sink) {
    let holes: Vec<Hole> = sc
        .holes
        .iter()
        .map(|h| Hole {
            u: h.u,
            t: h.t,
            a: h.a,
            code: h.code,
        })
        .collect();
    sink.emit(json!({
        "e":"cfg","id":sc.id,"units":sc.units,"seed":sc.seed,"retry":sc.retry,"port":sc.port,
        "holes": sc.holes.iter().map(|h| json!({"u":h.u,"t":h.t,"a":h.a,"code":h.code})).collect::<Vec<_>>(),
    }));
    let mut map = ServerHandlerMap::new();
    for u in &sc.units {
        map.add(
            UnitId::new(*u),
            DbHandler::new(*u, sc.seed, &holes, sink.clone()).wrap(),
        );
    }
    let port_ok = Arc::new(AtomicBool::new(sc.port));
    let current: Arc<Mutex<Option<IoHandle>>> = Arc::new(Mutex::new(None));
    rodbus::verif::install_port_opener(Some(Arc::new(Opener {
        sink: sink.clone(),
        t0: tokio::time::Instant::now(),
        ok: port_ok.clone(),
        current: current.clone(),
    })));
    let retry = doubling_retry_strategy(
        Duration::from_millis(sc.retry[0]),
        Duration::from_millis(sc.retry[1]),
    );
    let (handle, task) = create_rtu_server_task(
        "/dev/verif",
        SerialSettings::default(),
        retry,
        map,
        decode_level(&sc.decode),
    );
    let mut handle = Some(handle);
    let polls = Arc::new(AtomicU64::new(0));
    let mut task = tokio::spawn(PollCounted::new(task.run(), polls.clone()));
    let mut ended = false;

    let live = |current: &Arc<Mutex<Option<IoHandle>>>| -> Option<IoHandle> {
        match current.lock().unwrap().as_ref() {
            Some(h) if !h.is_dropped() => Some(h.clone()),
            _ => None,
        }
    };

    // (first iteration: the task starts by itself)
    let mut steps = sc.steps.iter();
    let mut first = true;
    loop {
        if !first {
            let step = match steps.next() {
                Some(s) => s,
                None => break,
            };
            match step.op.as_str() {
                "rx" => match live(&current) {
                    Some(h) => {
                        sink.emit(json!({"e":"rx","bytes":bytes_json(&step.bytes)}));
                        h.push(&step.bytes);
                    }
                    None => continue,
                },
                "eof" | "rerr" => match live(&current) {
                    Some(h) => {
                        sink.emit(json!({"e":step.op,"kind":step.kind}));
                        if step.op == "eof" {
                            h.eof()
                        } else {
                            h.read_error(io_kind(&step.kind))
                        }
                    }
                    None => continue,
                },
                "port" => {
                    sink.emit(json!({"e":"port","ok":step.ok}));
                    port_ok.store(step.ok, Ordering::SeqCst);
                }
                "tick" => {
                    sink.emit(json!({"e":"tick","d":step.d}));
                    tokio::time::advance(Duration::from_millis(step.d)).await;
                }
                "decode" => match handle.as_mut() {
                    Some(h) => {
                        sink.emit(json!({"e":"cmd","kind":"decode","level":step.level}));
                        let _ = h.set_decode_level(decode_level(&step.level)).await;
                    }
                    None => continue,
                },
                "shutdown" => match handle.as_ref() {
                    Some(h) => {
                        sink.emit(json!({"e":"cmd","kind":"shutdown"}));
                        let _ = h.shutdown().await;
                    }
                    None => continue,
                },
                "drop" => {
                    if handle.is_none() {
                        continue;
                    }
                    sink.emit(json!({"e":"cmd","kind":"drop"}));
                    handle = None;
                }
                _ => continue,
            }
        }
        first = false;
        if !settle(sink, std::slice::from_ref(&polls)).await {
            sink.emit(json!({"e":"stuck","why":"server task keeps being polled without becoming idle"}));
            task.abort();
            rodbus::verif::install_port_opener(None);
            return;
        }
        if !ended && task.is_finished() {
            ended = true;
            match (&mut task).await {
                Ok(()) => sink.emit(json!({"e":"task_end"})),
                Err(e) => {
                    let msg = take_panic().unwrap_or_else(|| format!("{e}"));
                    sink.emit(json!({"e":"panic","msg":msg}));
                }
            }
        }
        sink.emit(json!({"e":"q"}));
    }

    if !ended {
        // the task must still honour shutdown, whatever it is doing
        sink.emit(json!({"e":"cmd","kind":"final_shutdown"}));
        if let Some(h) = handle.as_ref() {
            let _ = h.shutdown().await;
        }
        drop(handle);
        if !settle(sink, std::slice::from_ref(&polls)).await || !task.is_finished() {
            sink.emit(json!({"e":"stuck","why":"server task did not end after shutdown"}));
            task.abort();
            rodbus::verif::install_port_opener(None);
            return;
        }
        match (&mut task).await {
            Ok(()) => sink.emit(json!({"e":"task_end"})),
            Err(e) => {
                let msg = take_panic().unwrap_or_else(|| format!("{e}"));
                sink.emit(json!({"e":"panic","msg":msg}));
            }
        }
        sink.emit(json!({"e":"q"}));
    }
    rodbus::verif::install_port_opener(None);
}

fn main() {
    let args: Vec<String> = std::env::args().collect();
    let scripts = std::fs::File::open(&args[1]).expect("scripts");
    let out = std::fs::File::create(&args[2]).expect("trace");
    let sink = Sink::new(Box::new(std::io::BufWriter::new(out)));
    install_panic_hook();
    install_tracing();
    let wd = Watchdog::start(sink.clone(), 20);
    let mut n = 0u64;
    for line in std::io::BufReader::new(scripts).lines() {
        let line = line.unwrap();
        if line.trim().is_empty() {
            continue;
        }
        let sc: Scenario = serde_json::from_str(&line).expect("scenario json");
        wd.scenario(sc.id);
        // a fresh runtime per scenario: the paused clock starts at zero
        let rt = tokio::runtime::Builder::new_current_thread()
            .enable_time()
            .start_paused(true)
            .build()
            .unwrap();
        rt.block_on(run_scenario(&sc, &sink));
        drop(rt);
        n += 1;
    }
    wd.done();
    sink.flush();
    eprintln!("e1_rtutask: {} scenarios, {} trace lines", n, sink.lines());
}
