//! E5: the C ABI, exercised through the `extern "C"` functions of rodbus-ffi (linked as an rlib).
//! usage: e5_ffi <scripts.ndjson> <trace.ndjson>
//! scenario kinds: write_results | client_ops | db_seq | db_stress
use rodbus_ffi::ffi;
use serde::Deserialize;
use serde_json::{json, Value};
use std::ffi::CString;
use std::io::{BufRead, Read, Write};
use std::net::{SocketAddr, TcpListener, TcpStream};
use std::os::raw::{c_int, c_void};
use std::sync::atomic::{AtomicBool, AtomicU64, Ordering};
use std::sync::{Arc, Mutex};
use std::time::{Duration, Instant};
use vharness::trace::{bytes_json, Sink};
use vharness::util::*;

#[derive(Deserialize, Clone, Default)]
struct Op {
    #[serde(default)]
    op: String,
    #[serde(default)]
    fc: u8,
    #[serde(default)]
    unit: u8,
    #[serde(default)]
    start: u32,
    #[serde(default)]
    count: u32,
    #[serde(default)]
    values: Vec<u32>,
    #[serde(default)]
    timeout: u64,
    #[serde(default)]
    peer: String, // reply | silence | close | noconn
    #[serde(default)]
    pdu: Vec<u8>,
    #[serde(default)]
    null_channel: bool,
    #[serde(default)]
    reuse: bool,
    #[serde(default)]
    after_destroy: bool,
    // db ops
    #[serde(default)]
    t: u8,
    #[serde(default)]
    idx: u16,
    #[serde(default)]
    value: u32,
    #[serde(default)]
    ops: Vec<Op>,
}

#[derive(Deserialize)]
struct Scenario {
    id: u64,
    kind: String,
    #[serde(default)]
    queue: u16,
    #[serde(default)]
    steps: Vec<Op>,
    #[serde(default)]
    writers: usize,
    #[serde(default)]
    readers: usize,
    #[serde(default)]
    millis: u64,
    #[serde(default)]
    block: u16,
    /// db_stress: point type 0 coil, 1 discrete input, 2 holding register, 3 input register (default: by block size)
    #[serde(default = "no_pt")]
    pt: u8,
}

fn no_pt() -> u8 {
    255
}

fn free_port() -> u16 {
    TcpListener::bind("127.0.0.1:0").unwrap().local_addr().unwrap().port()
}

fn decode0() -> ffi::DecodeLevel {
    ffi::DecodeLevel { app: 0, frame: 0, physical: 0 }
}

unsafe fn runtime() -> *mut rodbus_ffi::Runtime {
    let mut rt: *mut rodbus_ffi::Runtime = std::ptr::null_mut();
    let rc = ffi::rodbus_runtime_create(ffi::RuntimeConfig { num_core_threads: 2 }, &mut rt);
    assert_eq!(rc, 0);
    rt
}

fn mbap(tx: u16, unit: u8, pdu: &[u8]) -> Vec<u8> {
    let len = (pdu.len() + 1) as u16;
    let mut f = vec![(tx >> 8) as u8, tx as u8, 0, 0, (len >> 8) as u8, len as u8, unit];
    f.extend_from_slice(pdu);
    f
}

fn read_frame(s: &mut TcpStream, ms: u64) -> Result<Vec<u8>, &'static str> {
    s.set_read_timeout(Some(Duration::from_millis(ms))).ok();
    let mut out = Vec::new();
    let mut buf = [0u8; 300];
    loop {
        if out.len() >= 7 {
            let len = ((out[4] as usize) << 8) | out[5] as usize;
            if out.len() >= 6 + len {
                return Ok(out);
            }
        }
        match s.read(&mut buf) {
            Ok(0) => return Err("eof"),
            Ok(k) => out.extend_from_slice(&buf[..k]),
            Err(e) if e.kind() == std::io::ErrorKind::WouldBlock || e.kind() == std::io::ErrorKind::TimedOut => return Err("silent"),
            Err(_) => return Err("eof"),
        }
    }
}

// ------------------------------------------------------------------ write_results
/// the application callbacks decide from the index what to return (defined in FfiBoundary.tla: WantedResult)
fn wanted(idx: u16) -> ffi::WriteResult {
    if idx == 0 || idx == 100 {
        ffi::WriteResult { success: true, exception: 255, raw_exception: 0 }
    } else if (30000..=30255).contains(&idx) {
        // accepted, with the other members left at whatever the application had in them
        let k = (idx - 30000) as c_int;
        ffi::WriteResult { success: true, exception: k, raw_exception: k as u8 }
    } else if idx < 256 {
        let named = matches!(idx, 1 | 2 | 3 | 4 | 5 | 6 | 8 | 10 | 11);
        ffi::WriteResult {
            success: false,
            exception: if named { idx as c_int } else { 255 },
            raw_exception: idx as u8,
        }
    } else {
        ffi::WriteResult { success: false, exception: 255, raw_exception: (idx & 0xFF) as u8 }
    }
}

extern "C" fn wsc(index: u16, _v: bool, _db: *mut rodbus_ffi::Database, _ctx: *mut c_void) -> ffi::WriteResult {
    wanted(index)
}
extern "C" fn wsr(index: u16, _v: u16, _db: *mut rodbus_ffi::Database, _ctx: *mut c_void) -> ffi::WriteResult {
    wanted(index)
}
extern "C" fn wmc(start: u16, it: *mut rodbus_ffi::BitValueIterator, _db: *mut rodbus_ffi::Database, _ctx: *mut c_void) -> ffi::WriteResult {
    unsafe { while !ffi::rodbus_bit_value_iterator_next(it).is_null() {} }
    wanted(start)
}
extern "C" fn wmr(start: u16, it: *mut rodbus_ffi::RegisterValueIterator, _db: *mut rodbus_ffi::Database, _ctx: *mut c_void) -> ffi::WriteResult {
    unsafe { while !ffi::rodbus_register_value_iterator_next(it).is_null() {} }
    wanted(start)
}
extern "C" fn noop_db(_db: *mut rodbus_ffi::Database, _ctx: *mut c_void) {}

unsafe fn start_server(port: u16, handler: ffi::WriteHandler, configure: ffi::DatabaseCallback, rt: *mut rodbus_ffi::Runtime) -> *mut rodbus_ffi::Server {
    let map = ffi::rodbus_device_map_create();
    ffi::rodbus_device_map_add_endpoint(map, 1, handler, configure);
    let filter = ffi::rodbus_address_filter_any();
    let addr = CString::new("127.0.0.1").unwrap();
    let mut server: *mut rodbus_ffi::Server = std::ptr::null_mut();
    let rc = ffi::rodbus_server_create_tcp(rt, addr.as_ptr(), port, filter, 8, map, decode0(), &mut server);
    ffi::rodbus_address_filter_destroy(filter);
    ffi::rodbus_device_map_destroy(map);
    assert_eq!(rc, 0, "server create");
    server
}

fn write_results(sc: &Scenario, sink: &Sink) {
    unsafe {
        let rt = runtime();
        let port = free_port();
        let handler = ffi::WriteHandler {
            write_single_coil: Some(wsc),
            write_single_register: Some(wsr),
            write_multiple_coils: Some(wmc),
            write_multiple_registers: Some(wmr),
            on_destroy: None,
            ctx: std::ptr::null_mut(),
        };
        let cfg = ffi::DatabaseCallback { callback: Some(noop_db), on_destroy: None, ctx: std::ptr::null_mut() };
        let server = start_server(port, handler, cfg, rt);
        let mut s = TcpStream::connect(("127.0.0.1", port)).unwrap();
        s.set_nodelay(true).ok();
        let mut tx = 0u16;
        for st in &sc.steps {
            tx = tx.wrapping_add(1);
            let f = mbap(tx, 1, &st.pdu);
            s.write_all(&f).unwrap();
            match read_frame(&mut s, 3000) {
                Ok(b) => sink.emit(json!({"e":"wr","req":bytes_json(&st.pdu),"rsp":bytes_json(&b[7..]),"outcome":"reply"})),
                Err(w) => sink.emit(json!({"e":"wr","req":bytes_json(&st.pdu),"rsp":[],"outcome":w})),
            }
        }
        drop(s);
        ffi::rodbus_server_destroy(server);
        ffi::rodbus_runtime_destroy(rt);
    }
}

// ------------------------------------------------------------------ client_ops
struct CbCtx {
    sink: Sink,
    r: u64,
    completions: AtomicU64,
    destroys: AtomicU64,
    done: AtomicBool,
    t0: Instant,
}

extern "C" fn bits_complete(it: *mut rodbus_ffi::BitValueIterator, ctx: *mut c_void) {
    let c = unsafe { &*(ctx as *const CbCtx) };
    let mut vals = Vec::new();
    let mut idx0: i64 = -1;
    let mut contig = true;
    unsafe {
        loop {
            let p = ffi::rodbus_bit_value_iterator_next(it);
            if p.is_null() {
                break;
            }
            let v = &*p;
            if idx0 < 0 {
                idx0 = v.index as i64;
            }
            contig &= v.index as i64 == idx0 + vals.len() as i64;
            vals.push(v.value as u32);
        }
    }
    let n = c.completions.fetch_add(1, Ordering::SeqCst) + 1;
    c.sink.emit(json!({"e":"ffi_cb","r":c.r,"which":"complete","values":vals,"idx0":idx0,"contig":contig,"error":0,"n":n,"ms":c.t0.elapsed().as_millis() as u64}));
    c.done.store(true, Ordering::SeqCst);
}
extern "C" fn regs_complete(it: *mut rodbus_ffi::RegisterValueIterator, ctx: *mut c_void) {
    let c = unsafe { &*(ctx as *const CbCtx) };
    let mut vals = Vec::new();
    let mut idx0: i64 = -1;
    let mut contig = true;
    unsafe {
        loop {
            let p = ffi::rodbus_register_value_iterator_next(it);
            if p.is_null() {
                break;
            }
            let v = &*p;
            if idx0 < 0 {
                idx0 = v.index as i64;
            }
            contig &= v.index as i64 == idx0 + vals.len() as i64;
            vals.push(v.value as u32);
        }
    }
    let n = c.completions.fetch_add(1, Ordering::SeqCst) + 1;
    c.sink.emit(json!({"e":"ffi_cb","r":c.r,"which":"complete","values":vals,"idx0":idx0,"contig":contig,"error":0,"n":n,"ms":c.t0.elapsed().as_millis() as u64}));
    c.done.store(true, Ordering::SeqCst);
}
extern "C" fn write_complete(_nothing: c_int, ctx: *mut c_void) {
    let c = unsafe { &*(ctx as *const CbCtx) };
    let n = c.completions.fetch_add(1, Ordering::SeqCst) + 1;
    c.sink.emit(json!({"e":"ffi_cb","r":c.r,"which":"complete","values":[],"idx0":-1,"contig":true,"error":0,"n":n,"ms":c.t0.elapsed().as_millis() as u64}));
    c.done.store(true, Ordering::SeqCst);
}
extern "C" fn on_failure(err: c_int, ctx: *mut c_void) {
    let c = unsafe { &*(ctx as *const CbCtx) };
    let n = c.completions.fetch_add(1, Ordering::SeqCst) + 1;
    c.sink.emit(json!({"e":"ffi_cb","r":c.r,"which":"failure","values":[],"idx0":-1,"contig":true,"error":err,"n":n,"ms":c.t0.elapsed().as_millis() as u64}));
    c.done.store(true, Ordering::SeqCst);
}
extern "C" fn on_destroy(ctx: *mut c_void) {
    let c = unsafe { &*(ctx as *const CbCtx) };
    c.destroys.fetch_add(1, Ordering::SeqCst);
}

struct ListenerCtx {
    sink: Sink,
    state: Mutex<i32>,
}
extern "C" fn on_state(state: c_int, ctx: *mut c_void) {
    let c = unsafe { &*(ctx as *const ListenerCtx) };
    *c.state.lock().unwrap() = state;
    c.sink.emit(json!({"e":"ffi_state","state":state}));
}

fn wait_for<F: Fn() -> bool>(f: F, ms: u64) -> bool {
    let t0 = Instant::now();
    while t0.elapsed() < Duration::from_millis(ms) {
        if f() {
            return true;
        }
        std::thread::sleep(Duration::from_millis(2));
    }
    f()
}

fn client_ops(sc: &Scenario, sink: &Sink) {
    unsafe {
        let rt = runtime();
        let listener = TcpListener::bind("127.0.0.1:0").unwrap();
        let port = listener.local_addr().unwrap().port();
        let lctx = Box::leak(Box::new(ListenerCtx { sink: sink.clone(), state: Mutex::new(-1) }));
        let l = ffi::ClientStateListener { on_change: Some(on_state), on_destroy: None, ctx: lctx as *mut ListenerCtx as *mut c_void };
        let host = CString::new("127.0.0.1").unwrap();
        let mut ch: *mut rodbus_ffi::ClientChannel = std::ptr::null_mut();
        let rc = ffi::rodbus_client_channel_create_tcp(rt, host.as_ptr(), port, sc.queue.max(1), ffi::RetryStrategy { min_delay: 100, max_delay: 400 }, decode0(), l, &mut ch);
        sink.emit(json!({"e":"ffi_create","ret":rc}));
        let mut peer: Option<TcpStream> = None;
        let mut destroyed = false;
        let mut enabled = false;
        // lists owned by the application: a list may be used for more than one call
        let mut bit_list: Option<(*mut rodbus_ffi::BitList, Vec<u32>)> = None;
        let mut reg_list: Option<(*mut rodbus_ffi::RegisterList, Vec<u32>)> = None;
        for (i, st) in sc.steps.iter().enumerate() {
            if st.op == "enable" || st.op == "disable" {
                let rc = if st.op == "enable" { ffi::rodbus_client_channel_enable(ch) } else { ffi::rodbus_client_channel_disable(ch) };
                sink.emit(json!({"e":"ffi_call","op":st.op,"ret":rc,"r":i}));
                if st.op == "enable" && st.peer != "noconn" {
                    enabled = true;
                    listener.set_nonblocking(false).ok();
                    let (s, _) = listener.accept().unwrap();
                    s.set_nodelay(true).ok();
                    peer = Some(s);
                    wait_for(|| *lctx.state.lock().unwrap() == 2, 2000);
                } else if st.op == "disable" {
                    enabled = false;
                    peer = None;
                    wait_for(|| *lctx.state.lock().unwrap() == 0, 2000);
                }
                continue;
            }
            if st.op == "destroy" {
                ffi::rodbus_client_channel_destroy(ch);
                destroyed = true;
                sink.emit(json!({"e":"ffi_call","op":"destroy","ret":0,"r":i}));
                wait_for(|| *lctx.state.lock().unwrap() == 5, 2000);
                continue;
            }
            // a request
            let ctx = Box::leak(Box::new(CbCtx { sink: sink.clone(), r: i as u64, completions: AtomicU64::new(0), destroys: AtomicU64::new(0), done: AtomicBool::new(false), t0: Instant::now() }));
            let cp = ctx as *mut CbCtx as *mut c_void;
            let param = ffi::RequestParam { unit_id: st.unit, timeout: st.timeout };
            let range = ffi::AddressRange { start: st.start as u16, count: st.count as u16 };
            let chan = if st.null_channel || destroyed { std::ptr::null_mut() } else { ch };
            sink.emit(json!({"e":"ffi_req","r":i,"fc":st.fc,"unit":st.unit,"start":st.start,"count":st.count,"values":st.values,"timeout":st.timeout,
                "peer":st.peer,"null":st.null_channel || destroyed,"connected":peer.is_some() && enabled,"reply":st.pdu}));
            let rc = match st.fc {
                1 | 2 => {
                    let cb = ffi::BitReadCallback { on_complete: Some(bits_complete), on_failure: Some(on_failure), on_destroy: Some(on_destroy), ctx: cp };
                    if st.fc == 1 { ffi::rodbus_client_channel_read_coils(chan, param, range, cb) } else { ffi::rodbus_client_channel_read_discrete_inputs(chan, param, range, cb) }
                }
                3 | 4 => {
                    let cb = ffi::RegisterReadCallback { on_complete: Some(regs_complete), on_failure: Some(on_failure), on_destroy: Some(on_destroy), ctx: cp };
                    if st.fc == 3 { ffi::rodbus_client_channel_read_holding_registers(chan, param, range, cb) } else { ffi::rodbus_client_channel_read_input_registers(chan, param, range, cb) }
                }
                5 => {
                    let cb = ffi::WriteCallback { on_complete: Some(write_complete), on_failure: Some(on_failure), on_destroy: Some(on_destroy), ctx: cp };
                    ffi::rodbus_client_channel_write_single_coil(chan, param, ffi::BitValue { index: st.start as u16, value: st.values.first().copied().unwrap_or(0) != 0 }, cb)
                }
                6 => {
                    let cb = ffi::WriteCallback { on_complete: Some(write_complete), on_failure: Some(on_failure), on_destroy: Some(on_destroy), ctx: cp };
                    ffi::rodbus_client_channel_write_single_register(chan, param, ffi::RegisterValue { index: st.start as u16, value: st.values.first().copied().unwrap_or(0) as u16 }, cb)
                }
                15 => {
                    let cb = ffi::WriteCallback { on_complete: Some(write_complete), on_failure: Some(on_failure), on_destroy: Some(on_destroy), ctx: cp };
                    let list = match &bit_list {
                        Some((l, v)) if st.reuse && *v == st.values => *l,
                        _ => {
                            if let Some((l, _)) = bit_list.take() {
                                ffi::rodbus_bit_list_destroy(l);
                            }
                            let list = ffi::rodbus_bit_list_create(st.values.len() as u32);
                            for v in &st.values {
                                ffi::rodbus_bit_list_add(list, *v != 0);
                            }
                            bit_list = Some((list, st.values.clone()));
                            list
                        }
                    };
                    ffi::rodbus_client_channel_write_multiple_coils(chan, param, st.start as u16, list, cb)
                }
                _ => {
                    let cb = ffi::WriteCallback { on_complete: Some(write_complete), on_failure: Some(on_failure), on_destroy: Some(on_destroy), ctx: cp };
                    let list = match &reg_list {
                        Some((l, v)) if st.reuse && *v == st.values => *l,
                        _ => {
                            if let Some((l, _)) = reg_list.take() {
                                ffi::rodbus_register_list_destroy(l);
                            }
                            let list = ffi::rodbus_register_list_create(st.values.len() as u32);
                            for v in &st.values {
                                ffi::rodbus_register_list_add(list, *v as u16);
                            }
                            reg_list = Some((list, st.values.clone()));
                            list
                        }
                    };
                    ffi::rodbus_client_channel_write_multiple_registers(chan, param, st.start as u16, list, cb)
                }
            };
            sink.emit(json!({"e":"ffi_call","op":"request","ret":rc,"r":i}));
            // the scripted peer
            if let Some(s) = peer.as_mut() {
                if rc == 0 && enabled {
                    match read_frame(s, 1500) {
                        Ok(b) => {
                            sink.emit(json!({"e":"ffi_wire","r":i,"bytes":bytes_json(&b)}));
                            let tx = ((b[0] as u16) << 8) | b[1] as u16;
                            match st.peer.as_str() {
                                "reply" => {
                                    let _ = s.write_all(&mbap(tx, st.unit, &st.pdu));
                                }
                                "close" => {
                                    peer = None;
                                }
                                "reset" => {
                                    // the connection is aborted (RST) while the request is outstanding: an I/O error of
                                    // another kind than the end-of-file of a graceful close
                                    unsafe {
                                        use std::os::fd::AsRawFd;
                                        let l = libc::linger { l_onoff: 1, l_linger: 0 };
                                        libc::setsockopt(s.as_raw_fd(), libc::SOL_SOCKET, libc::SO_LINGER,
                                            &l as *const libc::linger as *const c_void, std::mem::size_of::<libc::linger>() as u32);
                                    }
                                    peer = None;
                                }
                                "badframe" => {
                                    // a reply that violates the framing (foreign protocol id): the connection is given up
                                    let _ = s.write_all(&[b[0], b[1], 0x12, 0x34, 0, 3, st.unit, 3, 0]);
                                    std::thread::sleep(Duration::from_millis(150));
                                    peer = None;
                                }
                                _ => {}
                            }
                        }
                        Err(w) => sink.emit(json!({"e":"ffi_wire","r":i,"bytes":[],"why":w})),
                    }
                } else {
                    // nothing may reach the wire for a call that reported an error
                    match read_frame(s, 150) {
                        Ok(b) => sink.emit(json!({"e":"ffi_wire","r":i,"bytes":bytes_json(&b)})),
                        Err(_) => {}
                    }
                }
            }
            let ok = wait_for(|| ctx.done.load(Ordering::SeqCst), st.timeout + 2500);
            wait_for(|| ctx.destroys.load(Ordering::SeqCst) > 0, 500);
            sink.emit(json!({"e":"ffi_end","r":i,"completed":ok,"completions":ctx.completions.load(Ordering::SeqCst),"destroys":ctx.destroys.load(Ordering::SeqCst)}));
            if peer.is_none() && enabled && (st.peer == "close" || st.peer == "reset" || st.peer == "badframe") {
                // the channel reconnects after the retry delay
                listener.set_nonblocking(false).ok();
                if let Ok((s, _)) = listener.accept() {
                    s.set_nodelay(true).ok();
                    peer = Some(s);
                    wait_for(|| *lctx.state.lock().unwrap() == 2, 2000);
                }
            }
        }
        if let Some((l, _)) = bit_list.take() {
            ffi::rodbus_bit_list_destroy(l);
        }
        if let Some((l, _)) = reg_list.take() {
            ffi::rodbus_register_list_destroy(l);
        }
        if !destroyed {
            ffi::rodbus_client_channel_destroy(ch);
        }
        ffi::rodbus_runtime_destroy(rt);
    }
}

/// queue depth: max_queued_requests = N, a peer that never answers; one request in flight, N more fit, the rest
/// is refused with TooManyRequests -- and every completion still fires exactly once
fn client_queue(sc: &Scenario, sink: &Sink) {
    unsafe {
        let rt = runtime();
        let listener = TcpListener::bind("127.0.0.1:0").unwrap();
        let port = listener.local_addr().unwrap().port();
        let lctx = Box::leak(Box::new(ListenerCtx { sink: sink.clone(), state: Mutex::new(-1) }));
        let l = ffi::ClientStateListener { on_change: Some(on_state), on_destroy: None, ctx: lctx as *mut ListenerCtx as *mut c_void };
        let host = CString::new("127.0.0.1").unwrap();
        let mut ch: *mut rodbus_ffi::ClientChannel = std::ptr::null_mut();
        let n = sc.queue.max(1);
        let rc = ffi::rodbus_client_channel_create_tcp(rt, host.as_ptr(), port, n, ffi::RetryStrategy { min_delay: 100, max_delay: 400 }, decode0(), l, &mut ch);
        sink.emit(json!({"e":"ffi_create","ret":rc}));
        ffi::rodbus_client_channel_enable(ch);
        let (_peer, _) = listener.accept().unwrap();
        wait_for(|| *lctx.state.lock().unwrap() == 2, 2000);
        let total = n as usize + 4;
        let mut ctxs = Vec::new();
        for k in 0..total {
            let ctx = Box::leak(Box::new(CbCtx { sink: sink.clone(), r: k as u64, completions: AtomicU64::new(0), destroys: AtomicU64::new(0), done: AtomicBool::new(false), t0: Instant::now() }));
            let cb = ffi::RegisterReadCallback { on_complete: Some(regs_complete), on_failure: Some(on_failure), on_destroy: Some(on_destroy), ctx: ctx as *mut CbCtx as *mut c_void };
            let rc = ffi::rodbus_client_channel_read_holding_registers(ch, ffi::RequestParam { unit_id: 1, timeout: 250 }, ffi::AddressRange { start: 0, count: 1 }, cb);
            sink.emit(json!({"e":"q_call","k":k,"ret":rc,"n":n}));
            ctxs.push(ctx);
            if k == 0 {
                // let the task take the first request out of the queue: it is now in flight
                std::thread::sleep(Duration::from_millis(120));
            }
        }
        let all = wait_for(|| ctxs.iter().all(|c| c.done.load(Ordering::SeqCst)), 250 * (total as u64 + 2) + 3000);
        std::thread::sleep(Duration::from_millis(50));
        sink.emit(json!({"e":"q_end","all_completed":all,"n":n,
            "completions": ctxs.iter().map(|c| c.completions.load(Ordering::SeqCst)).collect::<Vec<u64>>(),
            "destroys": ctxs.iter().map(|c| c.destroys.load(Ordering::SeqCst)).collect::<Vec<u64>>()}));
        ffi::rodbus_client_channel_destroy(ch);
        ffi::rodbus_runtime_destroy(rt);
    }
}

// ------------------------------------------------------------------ retry strategy passed through the C ABI
struct RetryCtx {
    t0: Instant,
    connecting_at: Mutex<Vec<u64>>,
}
extern "C" fn retry_on_state(state: c_int, ctx: *mut c_void) {
    let c = unsafe { &*(ctx as *const RetryCtx) };
    if state == 1 {
        c.connecting_at.lock().unwrap().push(c.t0.elapsed().as_millis() as u64);
    }
}

/// a TCP client channel created through the C ABI towards a port nobody listens on: the instants of its
/// connection attempts show the retry strategy it was given
fn client_retry(sc: &Scenario, sink: &Sink) {
    let (min, max, attempts) = (sc.steps[0].start as u64, sc.steps[0].count as u64, sc.steps[0].timeout as usize);
    let want = |k: usize| std::cmp::min(min << k, max);
    // one measurement: the instants at which the channel reports Connecting towards a port that refuses
    let measure = || -> Vec<u64> {
        unsafe {
            let rt = runtime();
            let port = free_port();
            let ctx = Box::leak(Box::new(RetryCtx { t0: Instant::now(), connecting_at: Mutex::new(Vec::new()) }));
            let l = ffi::ClientStateListener { on_change: Some(retry_on_state), on_destroy: None, ctx: ctx as *mut RetryCtx as *mut c_void };
            let host = CString::new("127.0.0.1").unwrap();
            let mut ch: *mut rodbus_ffi::ClientChannel = std::ptr::null_mut();
            let rc = ffi::rodbus_client_channel_create_tcp(rt, host.as_ptr(), port, 2, ffi::RetryStrategy { min_delay: min, max_delay: max }, decode0(), l, &mut ch);
            assert_eq!(rc, 0);
            ffi::rodbus_client_channel_enable(ch);
            let budget: u64 = (0..attempts).map(|k| want(k) + 1500).sum();
            wait_for(|| ctx.connecting_at.lock().unwrap().len() >= attempts, budget);
            let at = ctx.connecting_at.lock().unwrap().clone();
            ffi::rodbus_client_channel_destroy(ch);
            ffi::rodbus_runtime_destroy(rt);
            at
        }
    };
    // A wait can only be observed as long or longer than it was (the timer never fires early, the scheduler may be late):
    // the lower bound is judged on every observation, the upper bound on the shortest of up to three observations of the
    // same gap -- a delay that really is too long is too long every time, a late scheduler is not.
    let mut best: Vec<u64> = Vec::new();
    let mut seen = 0usize;
    for _ in 0..3 {
        let at = measure();
        seen = std::cmp::max(seen, at.len());
        let gaps: Vec<u64> = at.windows(2).map(|w| w[1] - w[0]).collect();
        for (k, g) in gaps.iter().enumerate() {
            if k >= best.len() {
                best.push(*g);
            } else {
                best[k] = std::cmp::min(best[k], *g);
            }
        }
        let settled = seen >= attempts && best.len() + 1 >= attempts && best.iter().enumerate().all(|(k, g)| *g <= want(k) + 250);
        if settled {
            break;
        }
    }
    sink.emit(json!({"e":"ffi_retry","min":min,"max":max,"attempts":seen,"wanted":attempts,"gaps":best}));
}

// ------------------------------------------------------------------ RTU channel / server created through the C ABI
/// what `serial::open` reaches with the hooks compiled in: records the settings it was called with
struct FfiOpener {
    ok: Arc<AtomicBool>,
    seen: Arc<Mutex<Vec<Value>>>,
    io: Arc<Mutex<Option<vharness::vio::IoHandle>>>,
}
impl rodbus::verif::PortOpener for FfiOpener {
    fn open(&self, _path: &str) -> std::io::Result<Box<dyn rodbus::verif::VerifIo>> {
        Err(std::io::Error::from(std::io::ErrorKind::Unsupported))
    }
    fn open_with(&self, path: &str, s: rodbus::SerialSettings) -> std::io::Result<Box<dyn rodbus::verif::VerifIo>> {
        self.seen.lock().unwrap().push(json!({"path":path,"baud":s.baud_rate,"data_bits":format!("{:?}", s.data_bits),
            "flow":format!("{:?}", s.flow_control),"parity":format!("{:?}", s.parity),"stop":format!("{:?}", s.stop_bits)}));
        if self.ok.load(Ordering::SeqCst) {
            let (io, h) = vharness::vio::script_io(Sink::null());
            h.record_tx(true);
            *self.io.lock().unwrap() = Some(h);
            Ok(Box::new(io))
        } else {
            Err(std::io::Error::from(std::io::ErrorKind::NotFound))
        }
    }
}

fn ffi_serial_settings(c: &Value) -> ffi::SerialPortSettings {
    ffi::SerialPortSettingsFields {
        baud_rate: c["baud"].as_u64().unwrap() as u32,
        data_bits: match c["data_bits"].as_str().unwrap() {
            "Five" => ffi::DataBits::Five,
            "Six" => ffi::DataBits::Six,
            "Seven" => ffi::DataBits::Seven,
            _ => ffi::DataBits::Eight,
        },
        flow_control: match c["flow"].as_str().unwrap() {
            "Software" => ffi::FlowControl::Software,
            "Hardware" => ffi::FlowControl::Hardware,
            _ => ffi::FlowControl::None,
        },
        parity: match c["parity"].as_str().unwrap() {
            "Odd" => ffi::Parity::Odd,
            "Even" => ffi::Parity::Even,
            _ => ffi::Parity::None,
        },
        stop_bits: match c["stop"].as_str().unwrap() {
            "Two" => ffi::StopBits::Two,
            _ => ffi::StopBits::One,
        },
    }
    .into()
}

struct PortStates {
    names: Mutex<Vec<String>>,
}
extern "C" fn on_port_state(state: c_int, ctx: *mut c_void) {
    let c = unsafe { &*(ctx as *const PortStates) };
    let name = if state == c_int::from(ffi::PortState::Disabled) {
        "Disabled"
    } else if state == c_int::from(ffi::PortState::Wait) {
        "Wait"
    } else if state == c_int::from(ffi::PortState::Open) {
        "Open"
    } else if state == c_int::from(ffi::PortState::Shutdown) {
        "Shutdown"
    } else {
        "?"
    };
    c.names.lock().unwrap().push(name.to_string());
}

fn crc16(data: &[u8]) -> u16 {
    let mut crc: u16 = 0xFFFF;
    for b in data {
        crc ^= *b as u16;
        for _ in 0..8 {
            crc = if crc & 1 != 0 { (crc >> 1) ^ 0xA001 } else { crc >> 1 };
        }
    }
    crc
}

fn rtu_frame(unit: u8, pdu: &[u8]) -> Vec<u8> {
    let mut b = vec![unit];
    b.extend_from_slice(pdu);
    let c = crc16(&b);
    b.push(c as u8);
    b.push((c >> 8) as u8);
    b
}

/// every scenario step is one configuration `cfg` = {path, baud, data_bits, flow, parity, stop, unit}
fn rtu_cabi(sc: &Scenario, sink: &Sink) {
    for st in &sc.steps {
        let cfg: Value = serde_json::from_str(&st.peer).expect("cfg json in `peer`");
        let ok = Arc::new(AtomicBool::new(false));
        let seen = Arc::new(Mutex::new(Vec::new()));
        let io = Arc::new(Mutex::new(None));
        rodbus::verif::install_port_opener(Some(Arc::new(FfiOpener { ok: ok.clone(), seen: seen.clone(), io: io.clone() })));
        let path = CString::new(cfg["path"].as_str().unwrap()).unwrap();
        let unit = cfg["unit"].as_u64().unwrap() as u8;
        unsafe {
            let rt = runtime();
            if st.op == "client" {
                let pctx = Box::leak(Box::new(PortStates { names: Mutex::new(Vec::new()) }));
                let l = ffi::PortStateListener { on_change: Some(on_port_state), on_destroy: None, ctx: pctx as *mut PortStates as *mut c_void };
                let mut ch: *mut rodbus_ffi::ClientChannel = std::ptr::null_mut();
                let rc = ffi::rodbus_client_channel_create_rtu(rt, path.as_ptr(), ffi_serial_settings(&cfg), 4, ffi::RetryStrategy { min_delay: 60, max_delay: 60 }, decode0(), l, &mut ch);
                if rc != 0 {
                    sink.emit(json!({"e":"ffi_rtu","role":"client","cfg":cfg,"create_rc":rc}));
                    ffi::rodbus_runtime_destroy(rt);
                    continue;
                }
                // the port is missing at first: the channel waits and tries again
                ffi::rodbus_client_channel_enable(ch);
                wait_for(|| seen.lock().unwrap().len() >= 2, 2000);
                ok.store(true, Ordering::SeqCst);
                wait_for(|| io.lock().unwrap().is_some(), 2000);
                wait_for(|| pctx.names.lock().unwrap().iter().any(|x| x == "Open"), 1000);
                let ctx = Box::leak(Box::new(CbCtx { sink: Sink::null(), r: 0, completions: AtomicU64::new(0), destroys: AtomicU64::new(0), done: AtomicBool::new(false), t0: Instant::now() }));
                let slot = Box::leak(Box::new(RtuResult { vals: Mutex::new(None) }));
                let _ = ctx;
                let cb = ffi::RegisterReadCallback { on_complete: Some(rtu_regs), on_failure: Some(rtu_fail), on_destroy: None, ctx: slot as *mut RtuResult as *mut c_void };
                ffi::rodbus_client_channel_read_holding_registers(ch, ffi::RequestParam { unit_id: unit, timeout: 1500 }, ffi::AddressRange { start: 7, count: 2 }, cb);
                let h = io.lock().unwrap().clone();
                let mut tx: Vec<u8> = Vec::new();
                if let Some(h) = h.as_ref() {
                    let t0 = Instant::now();
                    while tx.len() < 8 && t0.elapsed() < Duration::from_millis(1500) {
                        for f in h.take_tx() {
                            tx.extend_from_slice(&f);
                        }
                        std::thread::sleep(Duration::from_millis(2));
                    }
                    h.push(&rtu_frame(unit, &[3, 4, 0x12, 0x34, 0xAB, 0xCD]));
                }
                wait_for(|| slot.vals.lock().unwrap().is_some(), 2500);
                let result = slot.vals.lock().unwrap().clone().unwrap_or_else(|| "pending".to_string());
                ffi::rodbus_client_channel_destroy(ch);
                wait_for(|| pctx.names.lock().unwrap().iter().any(|x| x == "Shutdown"), 1500);
                let mut states = pctx.names.lock().unwrap().clone();
                states.dedup();
                sink.emit(json!({"e":"ffi_rtu","role":"client","cfg":cfg,"create_rc":0,"seen":seen.lock().unwrap().clone(),
                    "states":states,"tx":bytes_json(&tx),"result":result}));
            } else {
                ok.store(true, Ordering::SeqCst);
                let handler = ffi::WriteHandler { write_single_coil: None, write_single_register: None, write_multiple_coils: None, write_multiple_registers: None, on_destroy: None, ctx: std::ptr::null_mut() };
                let ictx = Box::leak(Box::new(StressCtx { value: 0, block: 4, coils: false, pt: 2 }));
                let dbcfg = ffi::DatabaseCallback { callback: Some(stress_init), on_destroy: None, ctx: ictx as *mut StressCtx as *mut c_void };
                let map = ffi::rodbus_device_map_create();
                ffi::rodbus_device_map_add_endpoint(map, unit, handler, dbcfg);
                let mut server: *mut rodbus_ffi::Server = std::ptr::null_mut();
                let rc = ffi::rodbus_server_create_rtu(rt, path.as_ptr(), ffi_serial_settings(&cfg), ffi::RetryStrategy { min_delay: 60, max_delay: 60 }, map, decode0(), &mut server);
                ffi::rodbus_device_map_destroy(map);
                if rc != 0 {
                    sink.emit(json!({"e":"ffi_rtu","role":"server","cfg":cfg,"create_rc":rc}));
                    ffi::rodbus_runtime_destroy(rt);
                    continue;
                }
                wait_for(|| io.lock().unwrap().is_some(), 2000);
                let h = io.lock().unwrap().clone();
                let mut tx: Vec<u8> = Vec::new();
                if let Some(h) = h.as_ref() {
                    h.push(&rtu_frame(unit, &[3, 0, 1, 0, 2]));
                    let t0 = Instant::now();
                    while tx.len() < 9 && t0.elapsed() < Duration::from_millis(1500) {
                        for f in h.take_tx() {
                            tx.extend_from_slice(&f);
                        }
                        std::thread::sleep(Duration::from_millis(2));
                    }
                }
                ffi::rodbus_server_destroy(server);
                sink.emit(json!({"e":"ffi_rtu","role":"server","cfg":cfg,"create_rc":0,"seen":seen.lock().unwrap().clone(),
                    "states":[],"tx":bytes_json(&tx),"result":""}));
            }
            ffi::rodbus_runtime_destroy(rt);
        }
        rodbus::verif::install_port_opener(None);
    }
}

struct RtuResult {
    vals: Mutex<Option<String>>,
}
extern "C" fn rtu_regs(it: *mut rodbus_ffi::RegisterValueIterator, ctx: *mut c_void) {
    let c = unsafe { &*(ctx as *const RtuResult) };
    let mut v = Vec::new();
    unsafe {
        loop {
            let p = ffi::rodbus_register_value_iterator_next(it);
            if p.is_null() {
                break;
            }
            v.push(format!("{}@{}", (*p).value, (*p).index));
        }
    }
    *c.vals.lock().unwrap() = Some(format!("ok:{}", v.join(",")));
}
extern "C" fn rtu_fail(err: c_int, ctx: *mut c_void) {
    let c = unsafe { &*(ctx as *const RtuResult) };
    *c.vals.lock().unwrap() = Some(format!("error{err}"));
}

// ------------------------------------------------------------------ decode levels named through the C ABI
static LOG_LINES: Mutex<Vec<String>> = Mutex::new(Vec::new());
extern "C" fn on_log(_level: c_int, message: *const std::os::raw::c_char, _ctx: *mut c_void) {
    let s = unsafe { std::ffi::CStr::from_ptr(message) }.to_string_lossy().to_string();
    LOG_LINES.lock().unwrap().push(s);
}

fn configure_ffi_logging_once() {
    static ONCE: std::sync::Once = std::sync::Once::new();
    ONCE.call_once(|| unsafe {
        let cfg: ffi::LoggingConfig = ffi::LoggingConfigFields {
            level: ffi::LogLevel::Info,
            output_format: ffi::LogOutputFormat::Text,
            time_format: ffi::TimeFormat::None,
            print_level: false,
            print_module_info: false,
        }
        .into();
        let rc = ffi::rodbus_configure_logging(cfg, ffi::Logger { on_message: Some(on_log), on_destroy: None, ctx: std::ptr::null_mut() });
        assert_eq!(rc, 0);
    });
}

/// the protocol-decoding lines of a log, without what differs between two runs by construction (port numbers)
fn decode_lines() -> Vec<String> {
    let lines = std::mem::take(&mut *LOG_LINES.lock().unwrap());
    let mut out = Vec::new();
    for l in lines {
        if std::env::var("VERIF_DEBUG_LOG").is_ok() { eprintln!("LOG: {l}"); }
        if !(l.contains("PDU") || l.contains("MBAP") || l.contains("PHYS")) {
            continue;
        }
        // drop the span prefix (it names ports and peer addresses, which differ between two runs by construction)
        let s = if let Some(i) = l.find("Transaction{") {
            l[i..].to_string()
        } else {
            let i = ["PDU ", "MBAP ", "PHYS "].iter().filter_map(|k| l.find(k)).min().unwrap_or(0);
            l[i..].to_string()
        };
        out.push(s.trim().to_string());
    }
    out
}

fn accept_one(listener: &TcpListener) -> Option<TcpStream> {
    listener.set_nonblocking(false).ok();
    let (s, _) = listener.accept().ok()?;
    s.set_nodelay(true).ok();
    Some(s)
}

fn answer_one_read(s: &mut TcpStream) -> Option<()> {
    let req = read_frame(s, 3000).ok()?;
    let rsp = mbap(((req[0] as u16) << 8) | req[1] as u16, req[6], &[3, 4, 0x12, 0x34, 0xAB, 0xCD]);
    s.write_all(&rsp).ok()
}

struct RustStates {
    connected: Arc<AtomicBool>,
}
impl rodbus::client::Listener<rodbus::client::ClientState> for RustStates {
    fn update(&mut self, value: rodbus::client::ClientState) -> rodbus::MaybeAsync<()> {
        if value == rodbus::client::ClientState::Connected {
            self.connected.store(true, Ordering::SeqCst);
        }
        rodbus::MaybeAsync::ready(())
    }
}

struct FixedHandler;
impl rodbus::server::RequestHandler for FixedHandler {
    fn read_holding_register(&self, address: u16) -> Result<u16, rodbus::ExceptionCode> {
        if address < 4 { Ok(0) } else { Err(rodbus::ExceptionCode::IllegalDataAddress) }
    }
}

/// one request / reply; the connection is handed back so that it stays open until the log has been collected (the
/// server's notice of the peer going away would otherwise race with the collection)
fn one_exchange(port: u16) -> Option<TcpStream> {
    let mut s = TcpStream::connect(("127.0.0.1", port)).ok()?;
    s.set_nodelay(true).ok();
    let _ = s.write_all(&mbap(7, 1, &[3, 0, 1, 0, 2]));
    let _ = read_frame(&mut s, 3000);
    std::thread::sleep(Duration::from_millis(30));
    Some(s)
}

/// server role: one identical request served by a C-ABI server and by a Rust server at the same-named decode level
fn decode_levels_server(sink: &Sink, a: usize, f: usize, p: usize, via_set: bool) {
    let level: ffi::DecodeLevel = ffi::DecodeLevelFields {
        app: [ffi::AppDecodeLevel::Nothing, ffi::AppDecodeLevel::FunctionCode, ffi::AppDecodeLevel::DataHeaders, ffi::AppDecodeLevel::DataValues][a].clone(),
        frame: [ffi::FrameDecodeLevel::Nothing, ffi::FrameDecodeLevel::Header, ffi::FrameDecodeLevel::Payload][f].clone(),
        physical: [ffi::PhysDecodeLevel::Nothing, ffi::PhysDecodeLevel::Length, ffi::PhysDecodeLevel::Data][p].clone(),
    }
    .into();
    let cabi = unsafe {
        let rt = runtime();
        let port = free_port();
        let handler = ffi::WriteHandler { write_single_coil: None, write_single_register: None, write_multiple_coils: None, write_multiple_registers: None, on_destroy: None, ctx: std::ptr::null_mut() };
        let ictx = Box::leak(Box::new(StressCtx { value: 0, block: 4, coils: false, pt: 2 }));
        let cfg = ffi::DatabaseCallback { callback: Some(stress_init), on_destroy: None, ctx: ictx as *mut StressCtx as *mut c_void };
        let map = ffi::rodbus_device_map_create();
        ffi::rodbus_device_map_add_endpoint(map, 1, handler, cfg);
        let filter = ffi::rodbus_address_filter_any();
        let addr = CString::new("127.0.0.1").unwrap();
        let mut server: *mut rodbus_ffi::Server = std::ptr::null_mut();
        let rc = ffi::rodbus_server_create_tcp(rt, addr.as_ptr(), port, filter, 4, map, if via_set { decode0() } else { level.clone() }, &mut server);
        ffi::rodbus_address_filter_destroy(filter);
        ffi::rodbus_device_map_destroy(map);
        assert_eq!(rc, 0);
        if via_set {
            ffi::rodbus_server_set_decode_level(server, level);
            std::thread::sleep(Duration::from_millis(30));
        }
        let _ = decode_lines();
        let conn = one_exchange(port);
        let lines = decode_lines();
        drop(conn);
        ffi::rodbus_server_destroy(server);
        ffi::rodbus_runtime_destroy(rt);
        lines
    };
    let rust = {
        use rodbus::server::*;
        use rodbus::*;
        let rt = tokio::runtime::Builder::new_multi_thread().worker_threads(1).enable_all().build().unwrap();
        let port = free_port();
        let lv = decode_level(&[a as u8, f as u8, p as u8]);
        let mut map = ServerHandlerMap::new();
        map.add(UnitId::new(1), FixedHandler.wrap());
        let mut handle = rt.block_on(async {
            spawn_tcp_server_task(4, format!("127.0.0.1:{port}").parse().unwrap(), map, AddressFilter::Any,
                if via_set { DecodeLevel::nothing() } else { lv }).await.unwrap()
        });
        if via_set {
            let _ = rt.block_on(handle.set_decode_level(lv));
            std::thread::sleep(Duration::from_millis(30));
        }
        let _ = decode_lines();
        let conn = one_exchange(port);
        let lines = decode_lines();
        drop(conn);
        drop(handle);
        rt.shutdown_timeout(Duration::from_millis(500));
        lines
    };
    sink.emit(json!({"e":"ffi_decode","level":[a, f, p],"via_set":via_set,"role":"server","cabi":cabi,"rust":rust}));
}

/// one identical transaction through a C-ABI channel and through a Rust channel at the same-named decode level:
/// what is logged must be the same
fn decode_levels(sc: &Scenario, sink: &Sink) {
    configure_ffi_logging_once();
    for st in &sc.steps {
        let (a, f, p) = (st.values[0] as usize, st.values[1] as usize, st.values[2] as usize);
        if st.op == "server" || st.op == "server_set" {
            decode_levels_server(sink, a, f, p, st.op == "server_set");
            continue;
        }
        let via_set = st.op == "set";
        // ---- C ABI
        let cabi = unsafe {
            let rt = runtime();
            let listener = TcpListener::bind("127.0.0.1:0").unwrap();
            let port = listener.local_addr().unwrap().port();
            let lctx = Box::leak(Box::new(ListenerCtx { sink: Sink::null(), state: Mutex::new(-1) }));
            let l = ffi::ClientStateListener { on_change: Some(on_state), on_destroy: None, ctx: lctx as *mut ListenerCtx as *mut c_void };
            let host = CString::new("127.0.0.1").unwrap();
            let mut ch: *mut rodbus_ffi::ClientChannel = std::ptr::null_mut();
            let level: ffi::DecodeLevel = ffi::DecodeLevelFields {
                app: [ffi::AppDecodeLevel::Nothing, ffi::AppDecodeLevel::FunctionCode, ffi::AppDecodeLevel::DataHeaders, ffi::AppDecodeLevel::DataValues][a].clone(),
                frame: [ffi::FrameDecodeLevel::Nothing, ffi::FrameDecodeLevel::Header, ffi::FrameDecodeLevel::Payload][f].clone(),
                physical: [ffi::PhysDecodeLevel::Nothing, ffi::PhysDecodeLevel::Length, ffi::PhysDecodeLevel::Data][p].clone(),
            }
            .into();
            let first = if via_set { decode0() } else { level.clone() };
            let rc = ffi::rodbus_client_channel_create_tcp(rt, host.as_ptr(), port, 4, ffi::RetryStrategy { min_delay: 100, max_delay: 400 }, first, l, &mut ch);
            assert_eq!(rc, 0);
            if via_set {
                ffi::rodbus_client_channel_set_decode_level(ch, level);
            }
            ffi::rodbus_client_channel_enable(ch);
            let mut peer = accept_one(&listener);
            wait_for(|| *lctx.state.lock().unwrap() == 2, 3000);
            let _ = decode_lines();
            let ctx = Box::leak(Box::new(CbCtx { sink: Sink::null(), r: 0, completions: AtomicU64::new(0), destroys: AtomicU64::new(0), done: AtomicBool::new(false), t0: Instant::now() }));
            let cb = ffi::RegisterReadCallback { on_complete: Some(regs_complete), on_failure: Some(on_failure), on_destroy: Some(on_destroy), ctx: ctx as *mut CbCtx as *mut c_void };
            ffi::rodbus_client_channel_read_holding_registers(ch, ffi::RequestParam { unit_id: 9, timeout: 2000 }, ffi::AddressRange { start: 7, count: 2 }, cb);
            if let Some(s) = peer.as_mut() {
                answer_one_read(s);
            }
            wait_for(|| ctx.done.load(Ordering::SeqCst), 3000);
            std::thread::sleep(Duration::from_millis(30));
            let lines = decode_lines();
            drop(peer);
            ffi::rodbus_client_channel_destroy(ch);
            ffi::rodbus_runtime_destroy(rt);
            lines
        };
        // ---- Rust API, same-named level
        let rust = {
            use rodbus::client::*;
            use rodbus::*;
            let rt = tokio::runtime::Builder::new_multi_thread().worker_threads(1).enable_all().build().unwrap();
            let listener = TcpListener::bind("127.0.0.1:0").unwrap();
            let port = listener.local_addr().unwrap().port();
            let level = decode_level(&[a as u8, f as u8, p as u8]);
            let connected = Arc::new(AtomicBool::new(false));
            let channel = {
                let _g = rt.enter();
                spawn_tcp_client_task(HostAddr::ip("127.0.0.1".parse().unwrap(), port), 4,
                    doubling_retry_strategy(Duration::from_millis(100), Duration::from_millis(400)),
                    if via_set { DecodeLevel::nothing() } else { level }, Some(Box::new(RustStates { connected: connected.clone() })))
            };
            let mut ch2 = channel.clone();
            rt.block_on(async {
                if via_set {
                    let _ = ch2.set_decode_level(level).await;
                }
                let _ = ch2.enable().await;
            });
            let mut peer = accept_one(&listener);
            wait_for(|| connected.load(Ordering::SeqCst), 3000);
            let _ = decode_lines();
            let mut ch3 = channel.clone();
            let h = rt.spawn(async move {
                ch3.read_holding_registers(RequestParam::new(UnitId::new(9), Duration::from_millis(2000)), AddressRange::try_from(7, 2).unwrap()).await
            });
            if let Some(s) = peer.as_mut() {
                answer_one_read(s);
            }
            let _ = rt.block_on(h);
            std::thread::sleep(Duration::from_millis(30));
            let lines = decode_lines();
            drop(peer);
            drop(channel);
            rt.shutdown_timeout(Duration::from_millis(500));
            lines
        };
        sink.emit(json!({"e":"ffi_decode","level":[a, f, p],"via_set":via_set,"cabi":cabi,"rust":rust}));
    }
}

// ------------------------------------------------------------------ database
struct DbCtx {
    sink: Sink,
    ops: Vec<Op>,
}

extern "C" fn db_txn(db: *mut rodbus_ffi::Database, ctx: *mut c_void) {
    let c = unsafe { &*(ctx as *const DbCtx) };
    for o in &c.ops {
        let (ret, got): (i64, i64) = unsafe {
            match (o.op.as_str(), o.t) {
                ("add", 0) => (ffi::rodbus_database_add_coil(db, o.idx, o.value != 0) as i64, -1),
                ("add", 1) => (ffi::rodbus_database_add_discrete_input(db, o.idx, o.value != 0) as i64, -1),
                ("add", 2) => (ffi::rodbus_database_add_holding_register(db, o.idx, o.value as u16) as i64, -1),
                ("add", _) => (ffi::rodbus_database_add_input_register(db, o.idx, o.value as u16) as i64, -1),
                ("update", 0) => (ffi::rodbus_database_update_coil(db, o.idx, o.value != 0) as i64, -1),
                ("update", 1) => (ffi::rodbus_database_update_discrete_input(db, o.idx, o.value != 0) as i64, -1),
                ("update", 2) => (ffi::rodbus_database_update_holding_register(db, o.idx, o.value as u16) as i64, -1),
                ("update", _) => (ffi::rodbus_database_update_input_register(db, o.idx, o.value as u16) as i64, -1),
                ("delete", 0) => (ffi::rodbus_database_delete_coil(db, o.idx) as i64, -1),
                ("delete", 1) => (ffi::rodbus_database_delete_discrete_input(db, o.idx) as i64, -1),
                ("delete", 2) => (ffi::rodbus_database_delete_holding_register(db, o.idx) as i64, -1),
                ("delete", _) => (ffi::rodbus_database_delete_input_register(db, o.idx) as i64, -1),
                (_, 0) => {
                    let mut out = false;
                    let rc = ffi::rodbus_database_get_coil(db, o.idx, &mut out);
                    ((rc == 0) as i64, if rc == 0 { out as i64 } else { -1 })
                }
                (_, 1) => {
                    let mut out = false;
                    let rc = ffi::rodbus_database_get_discrete_input(db, o.idx, &mut out);
                    ((rc == 0) as i64, if rc == 0 { out as i64 } else { -1 })
                }
                (_, 2) => {
                    let mut out = 0u16;
                    let rc = ffi::rodbus_database_get_holding_register(db, o.idx, &mut out);
                    ((rc == 0) as i64, if rc == 0 { out as i64 } else { -1 })
                }
                (_, _) => {
                    let mut out = 0u16;
                    let rc = ffi::rodbus_database_get_input_register(db, o.idx, &mut out);
                    ((rc == 0) as i64, if rc == 0 { out as i64 } else { -1 })
                }
            }
        };
        c.sink.emit(json!({"e":"db_op","op":o.op,"t":o.t,"idx":o.idx,"value":o.value,"ret":ret != 0,"got":got}));
    }
}

fn db_seq(sc: &Scenario, sink: &Sink) {
    unsafe {
        let rt = runtime();
        let port = free_port();
        let handler = ffi::WriteHandler { write_single_coil: None, write_single_register: None, write_multiple_coils: None, write_multiple_registers: None, on_destroy: None, ctx: std::ptr::null_mut() };
        let cfg = ffi::DatabaseCallback { callback: Some(noop_db), on_destroy: None, ctx: std::ptr::null_mut() };
        let server = start_server(port, handler, cfg, rt);
        let mut s = TcpStream::connect(("127.0.0.1", port)).unwrap();
        s.set_nodelay(true).ok();
        let mut tx = 0u16;
        for st in &sc.steps {
            if st.op == "txn" {
                sink.emit(json!({"e":"db_txn","unit":st.unit}));
                let ctx = Box::leak(Box::new(DbCtx { sink: sink.clone(), ops: st.ops.clone() }));
                let cb = ffi::DatabaseCallback { callback: Some(db_txn), on_destroy: None, ctx: ctx as *mut DbCtx as *mut c_void };
                let rc = ffi::rodbus_server_update_database(server, st.unit, cb);
                sink.emit(json!({"e":"db_txn_end","ret":rc}));
            } else {
                tx = tx.wrapping_add(1);
                s.write_all(&mbap(tx, st.unit, &st.pdu)).unwrap();
                match read_frame(&mut s, 3000) {
                    Ok(b) => sink.emit(json!({"e":"db_read","unit":st.unit,"req":bytes_json(&st.pdu),"rsp":bytes_json(&b[7..]),"outcome":"reply"})),
                    Err(w) => sink.emit(json!({"e":"db_read","unit":st.unit,"req":bytes_json(&st.pdu),"rsp":[],"outcome":w})),
                }
            }
        }
        drop(s);
        ffi::rodbus_server_destroy(server);
        ffi::rodbus_runtime_destroy(rt);
    }
}

struct StressCtx {
    value: u16,
    block: u16,
    coils: bool,
    pt: u8,
}
extern "C" fn stress_init(db: *mut rodbus_ffi::Database, ctx: *mut c_void) {
    let c = unsafe { &*(ctx as *const StressCtx) };
    unsafe {
        for i in 0..c.block {
            match c.pt {
                0 => ffi::rodbus_database_add_coil(db, i, false),
                1 => ffi::rodbus_database_add_discrete_input(db, i, false),
                2 => ffi::rodbus_database_add_holding_register(db, i, 0),
                _ => ffi::rodbus_database_add_input_register(db, i, 0),
            };
        }
    }
}
extern "C" fn stress_txn(db: *mut rodbus_ffi::Database, ctx: *mut c_void) {
    let c = unsafe { &*(ctx as *const StressCtx) };
    unsafe {
        for i in 0..c.block {
            match c.pt {
                0 => ffi::rodbus_database_update_coil(db, i, c.value % 2 == 1),
                1 => ffi::rodbus_database_update_discrete_input(db, i, c.value % 2 == 1),
                2 => ffi::rodbus_database_update_holding_register(db, i, c.value),
                _ => ffi::rodbus_database_update_input_register(db, i, c.value),
            };
        }
    }
}

// ------------------------------------------------------------------ the database is ONE map: overlapping transactions
struct RaceCtx {
    idx: u16,
    value: u16,
    added: bool,
    got: i64,
}
extern "C" fn race_add(db: *mut rodbus_ffi::Database, ctx: *mut c_void) {
    let c = unsafe { &mut *(ctx as *mut RaceCtx) };
    unsafe {
        // a little work inside the transaction widens the window in which the other one may (wrongly) overlap
        c.added = ffi::rodbus_database_add_holding_register(db, c.idx, c.value);
        for k in 0..40u16 {
            ffi::rodbus_database_update_input_register(db, 60000 + (k % 4), k);
        }
        // every 50th round the transaction stays open for a while: whoever came second is then certainly waiting -- or,
        // if transactions are not exclusive, certainly inside its own (a loaded machine makes the plain race unlikely)
        if c.idx % 50 == 0 {
            std::thread::sleep(Duration::from_millis(3));
        }
    }
}
extern "C" fn race_get(db: *mut rodbus_ffi::Database, ctx: *mut c_void) {
    let c = unsafe { &mut *(ctx as *mut RaceCtx) };
    let mut out: u16 = 0;
    let rc = unsafe { ffi::rodbus_database_get_holding_register(db, c.idx, &mut out) };
    c.got = if rc == 0 { out as i64 } else { -1 };
}
extern "C" fn race_init(db: *mut rodbus_ffi::Database, _ctx: *mut c_void) {
    unsafe {
        for k in 0..4u16 {
            ffi::rodbus_database_add_input_register(db, 60000 + k, 0);
        }
    }
}

/// two application threads add the SAME absent index in transactions started at the same instant: exactly one add
/// succeeds and its value is the one stored
fn db_add_race(sc: &Scenario, sink: &Sink) {
    unsafe {
        let rt = runtime();
        let port = free_port();
        let handler = ffi::WriteHandler { write_single_coil: None, write_single_register: None, write_multiple_coils: None, write_multiple_registers: None, on_destroy: None, ctx: std::ptr::null_mut() };
        let cfg = ffi::DatabaseCallback { callback: Some(race_init), on_destroy: None, ctx: std::ptr::null_mut() };
        let server = start_server(port, handler, cfg, rt);
        let server_addr = server as usize;
        let rounds = sc.block.max(1) as usize;
        let barrier = Arc::new(std::sync::Barrier::new(2));
        let results: Arc<Mutex<Vec<[bool; 2]>>> = Arc::new(Mutex::new(vec![[false; 2]; rounds]));
        let mut threads = Vec::new();
        for w in 0..2usize {
            let barrier = barrier.clone();
            let results = results.clone();
            threads.push(std::thread::spawn(move || {
                for i in 0..rounds {
                    let mut ctx = RaceCtx { idx: i as u16, value: (w as u16 + 1) * 1000 + i as u16, added: false, got: -1 };
                    let cb = ffi::DatabaseCallback { callback: Some(race_add), on_destroy: None, ctx: &mut ctx as *mut RaceCtx as *mut c_void };
                    barrier.wait();
                    ffi::rodbus_server_update_database(server_addr as *mut rodbus_ffi::Server, 1, cb);
                    results.lock().unwrap()[i][w] = ctx.added;
                }
            }));
        }
        for t in threads {
            let _ = t.join();
        }
        let (mut both, mut none, mut mismatch) = (0u64, 0u64, 0u64);
        let res = results.lock().unwrap().clone();
        for (i, r) in res.iter().enumerate() {
            match (r[0], r[1]) {
                (true, true) => both += 1,
                (false, false) => none += 1,
                _ => {
                    let winner = if r[0] { 0 } else { 1 };
                    let mut ctx = RaceCtx { idx: i as u16, value: 0, added: false, got: -1 };
                    let cb = ffi::DatabaseCallback { callback: Some(race_get), on_destroy: None, ctx: &mut ctx as *mut RaceCtx as *mut c_void };
                    ffi::rodbus_server_update_database(server, 1, cb);
                    if ctx.got != ((winner as i64 + 1) * 1000 + i as i64) {
                        mismatch += 1;
                    }
                }
            }
        }
        sink.emit(json!({"e":"db_add_race","rounds":rounds,"both_added":both,"none_added":none,"stored_is_not_the_winners":mismatch}));
        ffi::rodbus_server_destroy(server);
        ffi::rodbus_runtime_destroy(rt);
    }
}

fn db_stress(sc: &Scenario, sink: &Sink) {
    unsafe {
        let rt = runtime();
        let port = free_port();
        let pt = if sc.pt == 255 { if sc.block > 125 { 0 } else { 2 } } else { sc.pt };
        let coils = pt < 2;
        let handler = ffi::WriteHandler { write_single_coil: None, write_single_register: None, write_multiple_coils: None, write_multiple_registers: None, on_destroy: None, ctx: std::ptr::null_mut() };
        let ictx = Box::leak(Box::new(StressCtx { value: 0, block: sc.block, coils, pt }));
        let cfg = ffi::DatabaseCallback { callback: Some(stress_init), on_destroy: None, ctx: ictx as *mut StressCtx as *mut c_void };
        let server = start_server(port, handler, cfg, rt);
        let stop = Arc::new(AtomicBool::new(false));
        let server_addr = server as usize;
        let txns = Arc::new(AtomicU64::new(0));
        let mut threads = Vec::new();
        for w in 0..sc.writers {
            let stop = stop.clone();
            let txns = txns.clone();
            let block = sc.block;
            threads.push(std::thread::spawn(move || {
                let mut v = w as u16;
                while !stop.load(Ordering::SeqCst) {
                    v = v.wrapping_add(7);
                    let ctx = Box::new(StressCtx { value: v, block, coils, pt });
                    let p = Box::into_raw(ctx);
                    let cb = ffi::DatabaseCallback { callback: Some(stress_txn), on_destroy: None, ctx: p as *mut c_void };
                    ffi::rodbus_server_update_database(server_addr as *mut rodbus_ffi::Server, 1, cb);
                    drop(Box::from_raw(p));
                    txns.fetch_add(1, Ordering::SeqCst);
                }
            }));
        }
        let results = Arc::new(Mutex::new((0u64, 0u64, Vec::<Vec<u8>>::new())));
        for _ in 0..sc.readers {
            let stop = stop.clone();
            let results = results.clone();
            let block = sc.block;
            threads.push(std::thread::spawn(move || {
                let mut s = TcpStream::connect(("127.0.0.1", port)).unwrap();
                s.set_nodelay(true).ok();
                let mut tx = 0u16;
                while !stop.load(Ordering::SeqCst) {
                    tx = tx.wrapping_add(1);
                    let pdu = vec![[1u8, 2, 3, 4][pt as usize], 0, 0, (block >> 8) as u8, block as u8];
                    if s.write_all(&mbap(tx, 1, &pdu)).is_err() {
                        break;
                    }
                    if let Ok(b) = read_frame(&mut s, 3000) {
                        let data = &b[9..];
                        let uniform = if coils {
                            let full = (block / 8) as usize;
                            let first = data[0];
                            (first == 0 || first == 0xFF) && data[..full].iter().all(|x| *x == first)
                        } else {
                            data.chunks(2).all(|c| c == &data[0..2])
                        };
                        let mut g = results.lock().unwrap();
                        g.0 += 1;
                        if !uniform {
                            g.1 += 1;
                            if g.2.len() < 3 {
                                g.2.push(b[7..].to_vec());
                            }
                        }
                    }
                }
            }));
        }
        std::thread::sleep(Duration::from_millis(sc.millis));
        stop.store(true, Ordering::SeqCst);
        for t in threads {
            let _ = t.join();
        }
        let g = results.lock().unwrap();
        sink.emit(json!({"e":"db_stress","block":sc.block,"coils":coils,"pt":pt,"writers":sc.writers,"readers":sc.readers,
            "transactions":txns.load(Ordering::SeqCst),"reads":g.0,"torn":g.1,
            "samples":g.2.iter().map(|x| bytes_json(x)).collect::<Vec<_>>()}));
        drop(g);
        ffi::rodbus_server_destroy(server);
        ffi::rodbus_runtime_destroy(rt);
    }
}

fn main() {
    let args: Vec<String> = std::env::args().collect();
    let scripts = std::fs::File::open(&args[1]).expect("scripts");
    let out = std::fs::File::create(&args[2]).expect("trace");
    let sink = Sink::new(Box::new(std::io::BufWriter::new(out)));
    install_panic_hook();
    let wd = Watchdog::start(sink.clone(), 300);
    for line in std::io::BufReader::new(scripts).lines() {
        let line = line.unwrap();
        if line.trim().is_empty() {
            continue;
        }
        let sc: Scenario = serde_json::from_str(&line).expect("scenario json");
        wd.scenario(sc.id);
        sink.emit(json!({"e":"ffi_cfg","id":sc.id,"kind":sc.kind,"queue":sc.queue}));
        let r = std::panic::catch_unwind(std::panic::AssertUnwindSafe(|| match sc.kind.as_str() {
            "write_results" => write_results(&sc, &sink),
            "client_ops" => client_ops(&sc, &sink),
            "client_queue" => client_queue(&sc, &sink),
            "client_retry" => client_retry(&sc, &sink),
            "decode_levels" => decode_levels(&sc, &sink),
            "rtu_cabi" => rtu_cabi(&sc, &sink),
            "db_seq" => db_seq(&sc, &sink),
            "db_add_race" => db_add_race(&sc, &sink),
            _ => db_stress(&sc, &sink),
        }));
        if r.is_err() {
            sink.emit(json!({"e":"panic","msg":take_panic().unwrap_or_default()}));
        }
        sink.emit(json!({"e":"ffi_end_scenario"}));
    }
    wd.done();
    sink.flush();
    eprintln!("e5_ffi: {} trace lines", sink.lines());
    let _: Option<Value> = None;
    let _: Option<SocketAddr> = None;
}
