//! Exhaustive: all 2^32 arguments of the public AddressRange constructor (C03's quantifier names them).
//! For every count the set of accepted start addresses is summarised (is it an interval starting at 0? where does it
//! end?); the summary characterises the accepted set completely and is judged by RangeSummary.tla.
//! usage: e6_range <out.ndjson>
use rodbus::AddressRange;
use serde_json::json;
use std::collections::BTreeSet;
use std::io::Write;

fn main() {
    let args: Vec<String> = std::env::args().collect();
    let threads = 8u32;
    let mut handles = Vec::new();
    for t in 0..threads {
        handles.push(std::thread::spawn(move || {
            let mut noncontig = 0u64; // counts whose accepted starts are not exactly 0..=hi
            let mut with_any = 0u64; // counts with at least one accepted start
            let mut zero_count = 0u64; // accepted (start, 0) pairs
            let mut ends = BTreeSet::new(); // distinct values of hi + count
            let mut mismatched_fields = 0u64; // constructor returned a range with other fields than asked for
            let mut count = t;
            while count <= 65535 {
                let c = count as u16;
                let mut n = 0u32;
                let mut hi: i64 = -1;
                for start in 0..=65535u16 {
                    if let Ok(r) = AddressRange::try_from(start, c) {
                        n += 1;
                        hi = start as i64;
                        if r.start != start || r.count != c {
                            mismatched_fields += 1;
                        }
                    }
                }
                if c == 0 {
                    zero_count += n as u64;
                } else if n > 0 {
                    with_any += 1;
                    // accepted starts are an interval from 0 iff their number is hi + 1
                    if n as i64 != hi + 1 {
                        noncontig += 1;
                    }
                    ends.insert(hi + c as i64);
                }
                count += threads;
            }
            (noncontig, with_any, zero_count, ends, mismatched_fields)
        }));
    }
    let mut noncontig = 0;
    let mut with_any = 0;
    let mut zero_count = 0;
    let mut ends = BTreeSet::new();
    let mut mism = 0;
    for h in handles {
        let (a, b, c, d, e) = h.join().unwrap();
        noncontig += a;
        with_any += b;
        zero_count += c;
        ends.extend(d);
        mism += e;
    }
    let mut out = std::fs::File::create(&args[1]).expect("out");
    writeln!(out, "{}", json!({"e":"range_summary","pairs_hi":65536,"pairs_lo":65536,"counts_with_any":with_any,"noncontiguous_counts":noncontig,
        "zero_count_accepted":zero_count,"last_start_plus_count":ends.into_iter().collect::<Vec<i64>>(),"field_mismatches":mism})).unwrap();
}
