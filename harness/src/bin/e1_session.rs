//! E1: drives the production server session (SessionTask::run) over a scripted stream.
//! usage: e1_session <scripts.ndjson> <trace.ndjson>
use serde::Deserialize;
use serde_json::json;
use std::io::BufRead;
use std::sync::atomic::AtomicU64;
use std::sync::Arc;
use vharness::handlers::*;
use vharness::trace::{bytes_json, Sink};
use vharness::util::*;
use vharness::vio::*;

use rodbus::server::*;
use rodbus::verif::{Framing, ServerSession};
use rodbus::*;

#[derive(Deserialize)]
struct HoleJ {
    u: u8,
    t: u8,
    a: u16,
    code: u8,
}

#[derive(Deserialize)]
struct AuthJ {
    policy: String,
    seed: u32,
    role: String,
}

#[derive(Deserialize)]
struct Step {
    op: String,
    #[serde(default)]
    bytes: Vec<u8>,
    #[serde(default)]
    level: Vec<u8>,
    #[serde(default)]
    kind: String,
    /// hold_handler: the unit whose handler the application keeps locked, and for how long (real milliseconds)
    #[serde(default)]
    unit: u8,
    #[serde(default)]
    ms: u64,
}

#[derive(Deserialize)]
struct Scenario {
    id: u64,
    framing: String,
    units: Vec<u8>,
    auth: Option<AuthJ>,
    #[serde(default)]
    decode: Vec<u8>,
    seed: u32,
    #[serde(default)]
    holes: Vec<HoleJ>,
    /// the stream takes at most this many bytes per write call (0 = whole writes)
    #[serde(default)]
    max_write: usize,
    /// unit ids that are registered twice: first a decoy handler (other data, logs nothing), then the real one --
    /// `ServerHandlerMap::add` replaces, so only the real one may ever be asked
    #[serde(default)]
    replaced_units: Vec<u8>,
    steps: Vec<Step>,
}

type Session = ServerSession<DbHandler>;

fn end_event(sink: &Sink, r: Result<RequestError, String>, unread: usize) {
    match r {
        Ok(err) => {
            let (reason, detail) = match err {
                RequestError::Io(k) => ("Io", format!("{k:?}")),
                RequestError::BadFrame(f) => (
                    "BadFrame",
                    format!("{f:?}").split('(').next().unwrap_or("").to_string(),
                ),
                RequestError::Shutdown => ("Shutdown", String::new()),
                other => ("Other", format!("{other:?}")),
            };
            sink.emit(json!({"e":"end","reason":reason,"detail":detail,"unread":unread}));
        }
        Err(p) => sink.emit(json!({"e":"panic","msg":p})),
    }
}

async fn run_scenario(sc: &Scenario, sink: &Sink) {
    let holes: Vec<Hole> = sc
        .holes
        .iter()
        .map(|h| Hole {
            u: h.u,
            t: h.t,
            a: h.a,
            code: h.code,
        })
        .collect();
    let auth_cfg = sc.auth.as_ref().map(|a| AuthCfg {
        policy: a.policy.clone(),
        seed: a.seed,
        role: a.role.clone(),
    });
    sink.emit(json!({
        "e":"cfg","id":sc.id,"framing":sc.framing,"units":sc.units,"seed":sc.seed,
        "auth": match &auth_cfg { None => json!({"policy":"none","seed":0,"role":""}),
                                  Some(a) => json!({"policy":a.policy,"seed":a.seed,"role":a.role}) },
        "holes": sc.holes.iter().map(|h| json!({"u":h.u,"t":h.t,"a":h.a,"code":h.code})).collect::<Vec<_>>(),
    }));

    let mut map = ServerHandlerMap::new();
    let mut wrapped = std::collections::HashMap::new();
    for u in &sc.units {
        if sc.replaced_units.contains(u) {
            map.add(UnitId::new(*u), DbHandler::new(*u, sc.seed.wrapping_add(7919), &[], Sink::null()).wrap());
        }
        let h = DbHandler::new(*u, sc.seed, &holes, sink.clone()).wrap();
        wrapped.insert(*u, h.clone());
        map.add(UnitId::new(*u), h);
    }
    let framing = if sc.framing == "rtu" {
        Framing::Rtu
    } else {
        Framing::Tcp
    };
    let auth = auth_cfg.map(|a| {
        let role = a.role.clone();
        (PolicyAuth::create(a, sink.clone()), role)
    });
    let (handle, session) = ServerSession::new(map, auth, framing, decode_level(&sc.decode));
    let mut handle = Some(handle);
    let polls = Arc::new(AtomicU64::new(0));

    let max_write = sc.max_write;
    let spawn = |mut session: Session, sink: &Sink, polls: &Arc<AtomicU64>| {
        let (io, ioh) = script_io(sink.clone());
        ioh.set_max_write(max_write);
        let fut = async move {
            let r = session.run(Box::new(io)).await;
            (session, r)
        };
        (tokio::spawn(PollCounted::new(fut, polls.clone())), ioh)
    };

    let (mut task, mut ioh) = spawn(session, sink, &polls);
    let mut parked: Option<Session> = None; // session after it ended (for `reopen`)
    let mut dead = false; // panicked: cannot be reopened

    for step in &sc.steps {
        match step.op.as_str() {
            "rx" => {
                sink.emit(json!({"e":"rx","bytes":bytes_json(&step.bytes)}));
                ioh.push(&step.bytes);
            }
            "eof" => {
                sink.emit(json!({"e":"eof"}));
                ioh.eof();
            }
            "rerr" => {
                sink.emit(json!({"e":"rerr","kind":step.kind}));
                ioh.read_error(io_kind(&step.kind));
            }
            "werr" => {
                sink.emit(json!({"e":"werr","kind":step.kind}));
                ioh.write_error(io_kind(&step.kind));
            }
            "decode" => {
                sink.emit(json!({"e":"cmd","kind":"decode","level":step.level}));
                if let Some(h) = handle.as_mut() {
                    let _ = h.set_decode_level(decode_level(&step.level)).await;
                }
            }
            "shutdown" => {
                sink.emit(json!({"e":"cmd","kind":"shutdown"}));
                if let Some(h) = handle.as_ref() {
                    let _ = h.shutdown().await;
                }
            }
            "rx_race_shutdown" => {
                // a peer that keeps requests continuously available, and a shutdown handed in at the same instant:
                // the session must honour it while input is still pending, not after it has served everything
                sink.emit(json!({"e":"rx","bytes":bytes_json(&step.bytes)}));
                ioh.push(&step.bytes);
                sink.emit(json!({"e":"cmd","kind":"shutdown_race"}));
                if let Some(h) = handle.as_ref() {
                    let _ = h.shutdown().await;
                }
            }
            "drop" => {
                sink.emit(json!({"e":"cmd","kind":"drop"}));
                handle = None;
            }
            "hold_handler" => {
                // the application keeps one unit's handler locked for a while (it is doing something with its data):
                // whatever the session needs that handler for waits -- nothing is skipped
                if let Some(h) = wrapped.get(&step.unit) {
                    let h = h.clone();
                    let ms = step.ms;
                    let (tx, rx) = std::sync::mpsc::channel();
                    std::thread::spawn(move || {
                        let g = h.lock().unwrap_or_else(|e| e.into_inner());
                        let _ = tx.send(());
                        std::thread::sleep(std::time::Duration::from_millis(ms));
                        drop(g);
                    });
                    let _ = rx.recv();
                }
                continue;
            }
            "reopen" => {
                // what RtuServerTask::run does after a session error: run the same session
                // (same reader state) on a freshly opened port
                if let Some(s) = parked.take() {
                    sink.emit(json!({"e":"reopen"}));
                    let (t, h) = spawn(s, sink, &polls);
                    task = t;
                    ioh = h;
                } else {
                    continue;
                }
            }
            _ => {}
        }
        if !settle(sink, std::slice::from_ref(&polls)).await {
            sink.emit(json!({"e":"stuck","why":"session task keeps being polled without becoming idle"}));
            task.abort();
            return;
        }
        if parked.is_none() && !dead && task.is_finished() {
            match (&mut task).await {
                Ok((s, r)) => {
                    parked = Some(s);
                    end_event(sink, Ok(r), ioh.pending_bytes());
                }
                Err(e) => {
                    dead = true;
                    let msg = take_panic().unwrap_or_else(|| format!("{e}"));
                    end_event(sink, Err(msg), 0);
                }
            }
        }
        sink.emit(json!({"e":"q","zero_space_reads":ioh.zero_space_reads()}));
    }

    // the session must still honour shutdown
    if parked.is_none() && !dead {
        sink.emit(json!({"e":"cmd","kind":"final_shutdown"}));
        match handle.as_ref() {
            Some(h) => {
                let _ = h.shutdown().await;
            }
            None => {}
        }
        drop(handle);
        if !settle(sink, std::slice::from_ref(&polls)).await || !task.is_finished() {
            sink.emit(json!({"e":"stuck","why":"session did not end after shutdown"}));
            task.abort();
            return;
        }
        match (&mut task).await {
            Ok((_s, r)) => end_event(sink, Ok(r), ioh.pending_bytes()),
            Err(e) => {
                let msg = take_panic().unwrap_or_else(|| format!("{e}"));
                end_event(sink, Err(msg), 0);
            }
        }
        sink.emit(json!({"e":"q","zero_space_reads":ioh.zero_space_reads()}));
    }
}

fn main() {
    let args: Vec<String> = std::env::args().collect();
    let scripts = std::fs::File::open(&args[1]).expect("scripts");
    let out = std::fs::File::create(&args[2]).expect("trace");
    let sink = Sink::new(Box::new(std::io::BufWriter::new(out)));
    install_panic_hook();
    install_tracing();
    let wd = Watchdog::start(sink.clone(), 20);
    let rt = tokio::runtime::Builder::new_current_thread()
        .enable_time()
        .start_paused(true)
        .build()
        .unwrap();
    let mut n = 0u64;
    for line in std::io::BufReader::new(scripts).lines() {
        let line = line.unwrap();
        if line.trim().is_empty() {
            continue;
        }
        let sc: Scenario = serde_json::from_str(&line).expect("scenario json");
        wd.scenario(sc.id);
        rt.block_on(run_scenario(&sc, &sink));
        n += 1;
    }
    wd.done();
    sink.flush();
    eprintln!("e1_session: {} scenarios, {} trace lines", n, sink.lines());
}
