//! E3 (object level): replays call sequences on the real retry strategy objects.
//! usage: e3_retry <scripts.ndjson> <trace.ndjson>
use serde::Deserialize;
use serde_json::json;
use std::io::{BufRead, Write};
use std::time::Duration;

#[derive(Deserialize)]
struct Script {
    min: u64,
    max: u64,
    #[serde(default)]
    default_strategy: bool,
    calls: String, // f = after_failed_connect, d = after_disconnect, r = reset
    /// min / max and the reported delays are in microseconds instead of milliseconds
    #[serde(default)]
    micros: bool,
}

fn main() {
    let args: Vec<String> = std::env::args().collect();
    let scripts = std::fs::File::open(&args[1]).expect("scripts");
    let mut out = std::io::BufWriter::new(std::fs::File::create(&args[2]).expect("trace"));
    for line in std::io::BufReader::new(scripts).lines() {
        let line = line.unwrap();
        if line.trim().is_empty() {
            continue;
        }
        let sc: Script = serde_json::from_str(&line).unwrap();
        let mut s = if sc.default_strategy {
            rodbus::default_retry_strategy()
        } else {
            let d = |x: u64| if sc.micros { Duration::from_micros(x) } else { Duration::from_millis(x) };
            rodbus::doubling_retry_strategy(d(sc.min), d(sc.max))
        };
        let val = |d: Duration| if sc.micros { d.as_micros() as u64 } else { d.as_millis() as u64 };
        writeln!(out, "{}", json!({"e":"retry","call":"new","min":sc.min,"max":sc.max})).unwrap();
        for c in sc.calls.chars() {
            let v = match c {
                'f' => json!({"e":"retry","call":"failed","ret": val(s.after_failed_connect())}),
                'd' => json!({"e":"retry","call":"disconnect","ret": val(s.after_disconnect())}),
                _ => {
                    s.reset();
                    json!({"e":"retry","call":"reset"})
                }
            };
            writeln!(out, "{}", v).unwrap();
        }
    }
    out.flush().unwrap();
}
