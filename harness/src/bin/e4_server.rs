//! E4: black-box driver for the TCP / TLS server task over loopback sockets (real time), with the
//! guarded hook events of the server task (filter decision, tracker add / remove, server end).
//! usage: e4_server <scripts.ndjson> <trace.ndjson>
use serde::Deserialize;
use serde_json::{json, Value};
use std::collections::HashMap;
use std::io::BufRead;
use std::net::{IpAddr, SocketAddr};
use std::sync::Arc;
use std::time::Duration;
use tokio::io::{AsyncReadExt, AsyncWriteExt};
use tokio::net::{TcpSocket, TcpStream};
use tokio_rustls::rustls;
use vharness::handlers::*;
use vharness::trace::{bytes_json, Sink};
use vharness::util::*;

use rodbus::server::*;
use rodbus::verif::Event;
use rodbus::*;

const CERTS: &str = concat!(env!("CARGO_MANIFEST_DIR"), "/../fixtures/certs");

#[derive(Deserialize, Clone, Default)]
struct TlsPeer {
    cert: Option<String>, // fixture base name, None = no client certificate
    versions: Vec<String>,
    /// certificates sent after the peer's own one (a peer may present its whole chain)
    #[serde(default)]
    chain: Vec<String>,
}

#[derive(Deserialize, Clone)]
struct Step {
    op: String,
    #[serde(default)]
    c: usize,
    #[serde(default)]
    src: String,
    #[serde(default)]
    tls: Option<TlsPeer>,
    #[serde(default)]
    silent: bool,
    #[serde(default)]
    unit: u8,
    #[serde(default)]
    pdu: Vec<u8>,
    #[serde(default)]
    bytes: Vec<u8>,
    #[serde(default)]
    level: Vec<u8>,
    #[serde(default)]
    fields: Vec<Vec<String>>,
    #[serde(default)]
    cs: Vec<usize>,
    /// tcp_client life-cycle probe: the command handed in while the task is held in state `src`
    #[serde(default)]
    cmd: String,
}

#[derive(Deserialize, serde::Serialize, Clone)]
struct FilterJ {
    kind: String,
    #[serde(default)]
    addrs: Vec<String>,
    #[serde(default)]
    fields: Vec<i32>, // wildcard: four fields, -1 = '*'
}

impl FilterJ {
    fn pattern(&self) -> String {
        self.fields
            .iter()
            .map(|f| if *f < 0 { "*".to_string() } else { f.to_string() })
            .collect::<Vec<String>>()
            .join(".")
    }
}

fn octets(ip: &IpAddr) -> Vec<u8> {
    match ip {
        IpAddr::V4(x) => x.octets().to_vec(),
        IpAddr::V6(x) => x.octets().to_vec(),
    }
}

fn octets_of(s: &str) -> Vec<u8> {
    s.parse::<IpAddr>().map(|x| octets(&x)).unwrap_or_default()
}

#[derive(Deserialize)]
struct Scenario {
    id: u64,
    variant: String, // tcp | tls | tls_authz
    api: String,     // rust | cabi
    /// "current": run this scenario on a current-thread runtime (everything that becomes ready in one turn of the
    /// reactor runs before the server task does -- bursts are bursts)
    #[serde(default)]
    rt: String,
    #[serde(default)]
    mode: String, // ca | self
    #[serde(default)]
    min_tls: String,
    #[serde(default)]
    server_cert: String,
    #[serde(default)]
    peer_cert: String,
    max_sessions: usize,
    listen: String,
    filter: FilterJ,
    units: Vec<u8>,
    seed: u32,
    #[serde(default)]
    auth: Option<String>, // policy for tls_authz
    #[serde(default)]
    name: Option<String>, // tls_client: expected server name (None = name verification disabled)
    #[serde(default)]
    dns: String, // tls_client through the C ABI: dns_name as given
    #[serde(default)]
    wildcard: bool, // tls_client through the C ABI: allow_server_name_wildcard
    #[serde(default)]
    local_cert: String, // tls_client: the client's own certificate
    #[serde(default)]
    ctor: String, // tls_client: "legacy" = the deprecated TlsClientConfig::new(name, .., certificate_mode)
    steps: Vec<Step>,
}

/// the part of a scenario needed to create a server (sent to a blocking thread for the C ABI)
#[derive(Deserialize, serde::Serialize, Clone)]
struct ScenarioLite {
    variant: String,
    mode: String,
    min_tls: String,
    server_cert: String,
    peer_cert: String,
    max_sessions: usize,
    filter: FilterJ,
    units: Vec<u8>,
}

impl From<&Scenario> for ScenarioLite {
    fn from(s: &Scenario) -> Self {
        Self {
            variant: s.variant.clone(),
            mode: s.mode.clone(),
            min_tls: s.min_tls.clone(),
            server_cert: s.server_cert.clone(),
            peer_cert: s.peer_cert.clone(),
            max_sessions: s.max_sessions,
            filter: s.filter.clone(),
            units: s.units.clone(),
        }
    }
}

enum Conn {
    Plain(TcpStream),
    Tls(Box<tokio_rustls::client::TlsStream<TcpStream>>),
}

impl Conn {
    async fn write_all(&mut self, b: &[u8]) -> std::io::Result<()> {
        match self {
            Conn::Plain(s) => s.write_all(b).await,
            Conn::Tls(s) => s.write_all(b).await,
        }
    }
    async fn read(&mut self, b: &mut [u8]) -> std::io::Result<usize> {
        match self {
            Conn::Plain(s) => s.read(b).await,
            Conn::Tls(s) => s.read(b).await,
        }
    }
}

struct Peer {
    conn: Conn,
    id: Option<u128>,
    tx: u16,
}

fn pem_path(name: &str, what: &str) -> String {
    format!("{CERTS}/{name}_{what}.pem")
}

#[derive(Debug)]
struct AcceptAny;

impl rustls::client::danger::ServerCertVerifier for AcceptAny {
    fn verify_server_cert(
        &self,
        _e: &rustls::pki_types::CertificateDer,
        _i: &[rustls::pki_types::CertificateDer],
        _n: &rustls::pki_types::ServerName,
        _o: &[u8],
        _t: rustls::pki_types::UnixTime,
    ) -> Result<rustls::client::danger::ServerCertVerified, rustls::Error> {
        Ok(rustls::client::danger::ServerCertVerified::assertion())
    }
    fn verify_tls12_signature(
        &self,
        _m: &[u8],
        _c: &rustls::pki_types::CertificateDer,
        _d: &rustls::DigitallySignedStruct,
    ) -> Result<rustls::client::danger::HandshakeSignatureValid, rustls::Error> {
        Ok(rustls::client::danger::HandshakeSignatureValid::assertion())
    }
    fn verify_tls13_signature(
        &self,
        _m: &[u8],
        _c: &rustls::pki_types::CertificateDer,
        _d: &rustls::DigitallySignedStruct,
    ) -> Result<rustls::client::danger::HandshakeSignatureValid, rustls::Error> {
        Ok(rustls::client::danger::HandshakeSignatureValid::assertion())
    }
    fn supported_verify_schemes(&self) -> Vec<rustls::SignatureScheme> {
        rustls::crypto::ring::default_provider()
            .signature_verification_algorithms
            .supported_schemes()
    }
}

fn versions(v: &[String]) -> Vec<&'static rustls::SupportedProtocolVersion> {
    let mut out = Vec::new();
    for x in v {
        if x == "1.2" {
            out.push(&rustls::version::TLS12);
        }
        if x == "1.3" {
            out.push(&rustls::version::TLS13);
        }
    }
    out
}

fn client_config(p: &TlsPeer) -> Result<rustls::ClientConfig, String> {
    use rustls::pki_types::pem::PemObject;
    let provider = Arc::new(rustls::crypto::ring::default_provider());
    let b = rustls::ClientConfig::builder_with_provider(provider)
        .with_protocol_versions(&versions(&p.versions))
        .map_err(|e| e.to_string())?
        .dangerous()
        .with_custom_certificate_verifier(Arc::new(AcceptAny));
    match &p.cert {
        None => Ok(b.with_no_client_auth()),
        Some(name) => {
            let cert = rustls::pki_types::CertificateDer::from_pem_file(pem_path(name, "cert"))
                .map_err(|e| format!("{e:?}"))?;
            let key = rustls::pki_types::PrivateKeyDer::from_pem_file(pem_path(name, "key"))
                .map_err(|e| format!("{e:?}"))?;
            let mut certs = vec![cert];
            for extra in &p.chain {
                certs.push(
                    rustls::pki_types::CertificateDer::from_pem_file(pem_path(extra, "cert"))
                        .map_err(|e| format!("{e:?}"))?,
                );
            }
            b.with_client_auth_cert(certs, key).map_err(|e| e.to_string())
        }
    }
}

fn free_port(ip: IpAddr) -> u16 {
    let l = std::net::TcpListener::bind(SocketAddr::new(ip, 0)).unwrap();
    l.local_addr().unwrap().port()
}

enum ServerH {
    Rust(Option<ServerHandle>),
    Cabi(*mut rodbus_ffi::Server, *mut rodbus_ffi::Runtime),
    None,
}

fn make_filter(f: &FilterJ) -> Result<AddressFilter, String> {
    Ok(match f.kind.as_str() {
        "any" => AddressFilter::Any,
        "exact" => AddressFilter::Exact(f.addrs[0].parse().map_err(|_| "bad ip")?),
        "anyof" => AddressFilter::AnyOf(f.addrs.iter().map(|a| a.parse().unwrap()).collect()),
        _ => AddressFilter::WildcardIpv4(f.pattern().parse().map_err(|_| "bad wildcard")?),
    })
}

mod cabi {
    use super::*;
    use rodbus_ffi::ffi;
    use std::ffi::CString;

    extern "C" fn configure(db: *mut rodbus_ffi::Database, _ctx: *mut std::os::raw::c_void) {
        unsafe {
            ffi::rodbus_database_add_holding_register(db, 0, 7);
        }
    }

    pub fn decode_level(v: &[u8]) -> ffi::DecodeLevel {
        ffi::DecodeLevel {
            app: v.first().copied().unwrap_or(0) as i32,
            frame: v.get(1).copied().unwrap_or(0) as i32,
            physical: v.get(2).copied().unwrap_or(0) as i32,
        }
    }

    /// build the server purely through the C ABI
    pub fn create(sc: &ScenarioLite, ip: &str, port: u16) -> Result<(*mut rodbus_ffi::Server, *mut rodbus_ffi::Runtime), String> {
        unsafe {
            let mut rt: *mut rodbus_ffi::Runtime = std::ptr::null_mut();
            let rc = ffi::rodbus_runtime_create(ffi::RuntimeConfig { num_core_threads: 2 }, &mut rt);
            if rc != 0 {
                return Err(format!("runtime_create {rc}"));
            }
            let map = ffi::rodbus_device_map_create();
            for u in &sc.units {
                let handler = ffi::WriteHandler {
                    write_single_coil: None,
                    write_single_register: None,
                    write_multiple_coils: None,
                    write_multiple_registers: None,
                    on_destroy: None,
                    ctx: std::ptr::null_mut(),
                };
                let cb = ffi::DatabaseCallback {
                    callback: Some(configure),
                    on_destroy: None,
                    ctx: std::ptr::null_mut(),
                };
                ffi::rodbus_device_map_add_endpoint(map, *u, handler, cb);
            }
            // the filter, through rodbus_address_filter_*
            let filter: *mut rodbus_ffi::AddressFilter = match sc.filter.kind.as_str() {
                "any" => ffi::rodbus_address_filter_any(),
                "wildcard" => {
                    let mut out = std::ptr::null_mut();
                    let s = CString::new(sc.filter.pattern()).unwrap();
                    let rc = ffi::rodbus_address_filter_create(s.as_ptr(), &mut out);
                    if rc != 0 {
                        return Err(format!("filter_create {rc}"));
                    }
                    out
                }
                _ => {
                    let mut out = std::ptr::null_mut();
                    let s = CString::new(sc.filter.addrs[0].clone()).unwrap();
                    let rc = ffi::rodbus_address_filter_create(s.as_ptr(), &mut out);
                    if rc != 0 {
                        return Err(format!("filter_create {rc}"));
                    }
                    for a in sc.filter.addrs.iter().skip(1) {
                        let s = CString::new(a.clone()).unwrap();
                        let rc = ffi::rodbus_address_filter_add(out, s.as_ptr());
                        if rc != 0 {
                            return Err(format!("filter_add {rc}"));
                        }
                    }
                    out
                }
            };
            let addr = CString::new(ip).unwrap();
            let mut server: *mut rodbus_ffi::Server = std::ptr::null_mut();
            let dl = decode_level(&[0, 0, 0]);
            let rc = match sc.variant.as_str() {
                "tcp" => ffi::rodbus_server_create_tcp(rt, addr.as_ptr(), port, filter, sc.max_sessions as u16, map, dl, &mut server),
                _ => {
                    let peer = CString::new(pem_path(&sc.peer_cert, "cert")).unwrap();
                    let cert = CString::new(pem_path(&sc.server_cert, "cert")).unwrap();
                    let key = CString::new(pem_path(&sc.server_cert, "key")).unwrap();
                    let pw = CString::new("").unwrap();
                    let cfg = ffi::TlsServerConfigFields {
                        peer_cert_path: &peer,
                        local_cert_path: &cert,
                        private_key_path: &key,
                        password: &pw,
                        min_tls_version: if sc.min_tls == "1.3" { ffi::MinTlsVersion::V13 } else { ffi::MinTlsVersion::V12 },
                        certificate_mode: if sc.mode == "self" { ffi::CertificateMode::SelfSigned } else { ffi::CertificateMode::AuthorityBased },
                    };
                    let cfg: ffi::TlsServerConfig = cfg.into();
                    if sc.variant == "tls" {
                        ffi::rodbus_server_create_tls(rt, addr.as_ptr(), port, filter, sc.max_sessions as u16, map, cfg, dl, &mut server)
                    } else {
                        extern "C" fn allow_range(_u: u8, _r: ffi::AddressRange, _role: *const std::os::raw::c_char, _ctx: *mut std::os::raw::c_void) -> std::os::raw::c_int {
                            ffi::Authorization::Allow.into()
                        }
                        extern "C" fn allow_idx(_u: u8, _i: u16, _role: *const std::os::raw::c_char, _ctx: *mut std::os::raw::c_void) -> std::os::raw::c_int {
                            ffi::Authorization::Allow.into()
                        }
                        let auth = ffi::AuthorizationHandler {
                            read_coils: Some(allow_range),
                            read_discrete_inputs: Some(allow_range),
                            read_holding_registers: Some(allow_range),
                            read_input_registers: Some(allow_range),
                            write_single_coil: Some(allow_idx),
                            write_single_register: Some(allow_idx),
                            write_multiple_coils: Some(allow_range),
                            write_multiple_registers: Some(allow_range),
                            on_destroy: None,
                            ctx: std::ptr::null_mut(),
                        };
                        ffi::rodbus_server_create_tls_with_authz(rt, addr.as_ptr(), port, filter, sc.max_sessions as u16, map, cfg, auth, dl, &mut server)
                    }
                }
            };
            ffi::rodbus_address_filter_destroy(filter);
            ffi::rodbus_device_map_destroy(map);
            if rc != 0 {
                ffi::rodbus_runtime_destroy(rt);
                return Err(format!("server_create rc={rc}"));
            }
            Ok((server, rt))
        }
    }

    pub fn destroy(server: *mut rodbus_ffi::Server, rt: *mut rodbus_ffi::Runtime) {
        unsafe {
            ffi::rodbus_server_destroy(server);
            ffi::rodbus_runtime_destroy(rt);
        }
    }

    pub fn set_decode(server: *mut rodbus_ffi::Server, v: &[u8]) {
        unsafe {
            ffi::rodbus_server_set_decode_level(server, decode_level(v));
        }
    }
}

/// run a closure on a plain OS thread (the C ABI refuses to block inside a tokio context)
async fn off_runtime<T: Send + 'static, F: FnOnce() -> T + Send + 'static>(f: F) -> T {
    let (tx, rx) = tokio::sync::oneshot::channel();
    std::thread::spawn(move || {
        let _ = tx.send(f());
    });
    rx.await.expect("off-runtime thread died")
}

async fn wait_hook<F: Fn(&Event) -> bool>(
    rx: &mut tokio::sync::mpsc::UnboundedReceiver<Event>,
    pred: F,
    ms: u64,
) -> Option<Event> {
    let deadline = tokio::time::Instant::now() + Duration::from_millis(ms);
    loop {
        match tokio::time::timeout_at(deadline, rx.recv()).await {
            Ok(Some(ev)) => {
                if pred(&ev) {
                    return Some(ev);
                }
            }
            _ => return None,
        }
    }
}

/// what the peer sees on this connection within `ms`: eof / data / still open
async fn peer_view(conn: &mut Conn, ms: u64) -> (&'static str, usize) {
    let mut buf = [0u8; 512];
    let mut n = 0;
    let deadline = tokio::time::Instant::now() + Duration::from_millis(ms);
    loop {
        match tokio::time::timeout_at(deadline, conn.read(&mut buf)).await {
            Ok(Ok(0)) => return (if n == 0 { "eof" } else { "data" }, n),
            Ok(Ok(k)) => n += k,
            Ok(Err(_)) => return (if n == 0 { "eof" } else { "data" }, n),
            Err(_) => return (if n == 0 { "open" } else { "data" }, n),
        }
    }
}

async fn read_frame(conn: &mut Conn, ms: u64) -> Result<Vec<u8>, &'static str> {
    let deadline = tokio::time::Instant::now() + Duration::from_millis(ms);
    let mut out: Vec<u8> = Vec::new();
    let mut buf = [0u8; 300];
    loop {
        if out.len() >= 7 {
            let len = ((out[4] as usize) << 8) | out[5] as usize;
            if out.len() >= 6 + len {
                return Ok(out);
            }
        }
        match tokio::time::timeout_at(deadline, conn.read(&mut buf)).await {
            Ok(Ok(0)) | Ok(Err(_)) => return Err("eof"),
            Ok(Ok(k)) => out.extend_from_slice(&buf[..k]),
            Err(_) => return Err("silent"),
        }
    }
}

fn server_config(cert: &str, vs: &[String]) -> Result<rustls::ServerConfig, String> {
    use rustls::pki_types::pem::PemObject;
    let provider = Arc::new(rustls::crypto::ring::default_provider());
    let c = rustls::pki_types::CertificateDer::from_pem_file(pem_path(cert, "cert")).map_err(|e| format!("{e:?}"))?;
    let k = rustls::pki_types::PrivateKeyDer::from_pem_file(pem_path(cert, "key")).map_err(|e| format!("{e:?}"))?;
    rustls::ServerConfig::builder_with_provider(provider)
        .with_protocol_versions(&versions(vs))
        .map_err(|e| e.to_string())?
        .with_no_client_auth()
        .with_single_cert(vec![c], k)
        .map_err(|e| e.to_string())
}

struct StateLog {
    sink: Sink,
    last: Arc<std::sync::Mutex<Vec<String>>>,
}

impl rodbus::client::Listener<rodbus::client::ClientState> for StateLog {
    fn update(&mut self, value: rodbus::client::ClientState) -> MaybeAsync<()> {
        let name = format!("{value:?}").split('(').next().unwrap_or("").to_string();
        self.sink.emit(json!({"e":"cstate","state":name}));
        self.last.lock().unwrap().push(name);
        MaybeAsync::ready(())
    }
}

// ---- the TLS client created through the C ABI (rodbus_client_channel_create_tls)
struct CabiStates {
    sink: Sink,
    last: Arc<std::sync::Mutex<Vec<String>>>,
}
extern "C" fn cabi_on_state(state: std::os::raw::c_int, ctx: *mut std::os::raw::c_void) {
    let c = unsafe { &*(ctx as *const CabiStates) };
    let name = match state {
        0 => "Disabled",
        1 => "Connecting",
        2 => "Connected",
        3 => "WaitAfterFailedConnect",
        4 => "WaitAfterDisconnect",
        5 => "Shutdown",
        _ => "?",
    }
    .to_string();
    c.sink.emit(json!({"e":"cstate","state":name}));
    c.last.lock().unwrap().push(name);
}
struct CabiResult {
    slot: std::sync::Mutex<Option<String>>,
}
extern "C" fn cabi_regs(it: *mut rodbus_ffi::RegisterValueIterator, ctx: *mut std::os::raw::c_void) {
    let c = unsafe { &*(ctx as *const CabiResult) };
    let mut first = None;
    unsafe {
        loop {
            let p = rodbus_ffi::ffi::rodbus_register_value_iterator_next(it);
            if p.is_null() {
                break;
            }
            if first.is_none() {
                first = Some((*p).value);
            }
        }
    }
    *c.slot.lock().unwrap() = Some(format!("ok{}", first.unwrap_or(0)));
}
extern "C" fn cabi_fail(err: std::os::raw::c_int, ctx: *mut std::os::raw::c_void) {
    let c = unsafe { &*(ctx as *const CabiResult) };
    *c.slot.lock().unwrap() = Some(format!("error{err}"));
}

/// returns (channel, runtime) as addresses, or the return code of the failed call
struct CabiClientCfg {
    dns: String,
    wildcard: bool,
    peer_cert: String,
    local_cert: String,
    min_tls: String,
    mode: String,
}

fn cabi_tls_client_create_cfg(sc: &CabiClientCfg, port: u16, sink: &Sink, states: &Arc<std::sync::Mutex<Vec<String>>>) -> Result<(usize, usize), i32> {
    use rodbus_ffi::ffi;
    use std::ffi::CString;
    unsafe {
        let mut rt: *mut rodbus_ffi::Runtime = std::ptr::null_mut();
        let rc = ffi::rodbus_runtime_create(ffi::RuntimeConfig { num_core_threads: 2 }, &mut rt);
        if rc != 0 {
            return Err(rc);
        }
        let dns = CString::new(sc.dns.clone()).unwrap();
        let peer = CString::new(pem_path(&sc.peer_cert, "cert")).unwrap();
        let cert = CString::new(pem_path(&sc.local_cert, "cert")).unwrap();
        let key = CString::new(pem_path(&sc.local_cert, "key")).unwrap();
        let pw = CString::new("").unwrap();
        let cfg: ffi::TlsClientConfig = ffi::TlsClientConfigFields {
            dns_name: &dns,
            peer_cert_path: &peer,
            local_cert_path: &cert,
            private_key_path: &key,
            password: &pw,
            min_tls_version: if sc.min_tls == "1.3" { ffi::MinTlsVersion::V13 } else { ffi::MinTlsVersion::V12 },
            certificate_mode: if sc.mode == "self" { ffi::CertificateMode::SelfSigned } else { ffi::CertificateMode::AuthorityBased },
            allow_server_name_wildcard: sc.wildcard,
        }
        .into();
        let lctx = Box::leak(Box::new(CabiStates { sink: sink.clone(), last: states.clone() }));
        let l = ffi::ClientStateListener { on_change: Some(cabi_on_state), on_destroy: None, ctx: lctx as *mut CabiStates as *mut std::os::raw::c_void };
        let host = CString::new("127.0.0.1").unwrap();
        let mut ch: *mut rodbus_ffi::ClientChannel = std::ptr::null_mut();
        let rc = ffi::rodbus_client_channel_create_tls(rt, host.as_ptr(), port, 4, ffi::RetryStrategy { min_delay: 200, max_delay: 200 }, cfg,
            ffi::DecodeLevel { app: 0, frame: 0, physical: 0 }, l, &mut ch);
        if rc != 0 {
            ffi::rodbus_runtime_destroy(rt);
            return Err(rc);
        }
        ffi::rodbus_client_channel_enable(ch);
        Ok((ch as usize, rt as usize))
    }
}

fn cabi_read_one(ch: usize) -> String {
    use rodbus_ffi::ffi;
    unsafe {
        let ctx = Box::leak(Box::new(CabiResult { slot: std::sync::Mutex::new(None) }));
        let cb = ffi::RegisterReadCallback { on_complete: Some(cabi_regs), on_failure: Some(cabi_fail), on_destroy: None, ctx: ctx as *mut CabiResult as *mut std::os::raw::c_void };
        let rc = ffi::rodbus_client_channel_read_holding_registers(ch as *mut rodbus_ffi::ClientChannel, ffi::RequestParam { unit_id: 1, timeout: 1500 },
            ffi::AddressRange { start: 0, count: 1 }, cb);
        if rc != 0 {
            return format!("rc{rc}");
        }
        let t0 = std::time::Instant::now();
        while t0.elapsed() < Duration::from_millis(2500) {
            if let Some(x) = ctx.slot.lock().unwrap().clone() {
                return x;
            }
            std::thread::sleep(Duration::from_millis(3));
        }
        "pending".to_string()
    }
}

fn cabi_client_destroy(ch: usize, rt: usize) {
    unsafe {
        rodbus_ffi::ffi::rodbus_client_channel_destroy(ch as *mut rodbus_ffi::ClientChannel);
        rodbus_ffi::ffi::rodbus_runtime_destroy(rt as *mut rodbus_ffi::Runtime);
    }
}

// ---- black-box life-cycle of the plain TCP channel task on real sockets (no connector hook): a command handed in
// ---- exactly while the task is in a given state
struct GateListener {
    sink: Sink,
    states: Arc<std::sync::Mutex<Vec<String>>>,
    gate_at: String,
    hit: Arc<tokio::sync::Notify>,
    release: Arc<tokio::sync::Notify>,
    armed: Arc<std::sync::atomic::AtomicBool>,
}

impl rodbus::client::Listener<rodbus::client::ClientState> for GateListener {
    fn update(&mut self, value: rodbus::client::ClientState) -> MaybeAsync<()> {
        let name = format!("{value:?}").split('(').next().unwrap_or("").to_string();
        self.sink.emit(json!({"e":"cstate","state":name}));
        self.states.lock().unwrap().push(name.clone());
        if name == self.gate_at && self.armed.swap(false, std::sync::atomic::Ordering::SeqCst) {
            // the task stays in this notification until the harness has handed in its command
            let (hit, release) = (self.hit.clone(), self.release.clone());
            return MaybeAsync::asynchronous(async move {
                hit.notify_one();
                release.notified().await;
            });
        }
        MaybeAsync::ready(())
    }
}

async fn run_tcp_client_lifecycle(sc: &Scenario, sink: &Sink) {
    use rodbus::client::*;
    sink.emit(json!({"e":"tcpc_cfg","id":sc.id}));
    for st in &sc.steps {
        // op = "lc": fields src = state to gate at, kind = command, peer via `silent` (true = nobody listens)
        let gate_at = st.src.clone();
        let cmd = st.cmd.clone();
        let listener = tokio::net::TcpListener::bind("127.0.0.1:0").await.unwrap();
        let port = listener.local_addr().unwrap().port();
        let refuse = st.silent;
        let close_after_accept = st.c == 1;
        let listener = if refuse { drop(listener); None } else { Some(listener) };
        let states = Arc::new(std::sync::Mutex::new(Vec::new()));
        let hit = Arc::new(tokio::sync::Notify::new());
        let release = Arc::new(tokio::sync::Notify::new());
        let armed = Arc::new(std::sync::atomic::AtomicBool::new(true));
        let (channel, task) = create_tcp_client_task_with_options(
            HostAddr::ip("127.0.0.1".parse().unwrap(), port),
            doubling_retry_strategy(Duration::from_millis(150), Duration::from_millis(150)),
            Some(Box::new(GateListener { sink: sink.clone(), states: states.clone(), gate_at: gate_at.clone(), hit: hit.clone(), release: release.clone(), armed: armed.clone() })),
            ClientOptions::default(),
        );
        let mut task = tokio::spawn(task.run());
        let acceptor = tokio::spawn(async move {
            // the peer: accepts, and for the disconnect cases closes again at once
            if let Some(l) = listener {
                let mut held = Vec::new();
                loop {
                    match tokio::time::timeout(Duration::from_millis(2500), l.accept()).await {
                        Ok(Ok((s, _))) => {
                            if close_after_accept {
                                drop(s);
                            } else {
                                held.push(s);
                            }
                        }
                        _ => break,
                    }
                }
            }
        });
        let _ = channel.enable().await;
        let reached = tokio::time::timeout(Duration::from_millis(2500), hit.notified()).await.is_ok();
        let gate_index = states.lock().unwrap().len();
        let mut channel = Some(channel);
        if reached {
            sink.emit(json!({"e":"cmd","kind":cmd}));
            match cmd.as_str() {
                "shutdown" => {
                    let ch = channel.clone().unwrap();
                    tokio::spawn(async move { let _ = ch.shutdown().await; });
                }
                "disable" => {
                    let ch = channel.clone().unwrap();
                    tokio::spawn(async move { let _ = ch.disable().await; });
                }
                _ => channel = None,
            }
            tokio::time::sleep(Duration::from_millis(30)).await;
            release.notify_one();
        }
        let ended = tokio::time::timeout(Duration::from_millis(1200), &mut task).await.is_ok();
        let after: Vec<String> = states.lock().unwrap().clone();
        sink.emit(json!({"e":"tcpc_lc","at":gate_at,"cmd":cmd,"refuse":refuse,"gate_reached":reached,"gate_index":gate_index,"states":after,"task_ended":ended}));
        if !ended {
            task.abort();
        }
        acceptor.abort();
        drop(channel);
    }
    sink.emit(json!({"e":"scenario_end"}));
}

/// C09 client role (and the handshake-stall scenarios): the rodbus TLS client against a rustls server of the harness
async fn run_tls_client(sc: &Scenario, sink: &Sink) {
    use rodbus::client::*;
    let cabi = sc.api == "cabi";
    if cabi {
        sink.emit(json!({"e":"tlsc_cfg","id":sc.id,"mode":sc.mode,"min_tls":sc.min_tls,"trust":sc.peer_cert,
            "dns":sc.dns,"wildcard":sc.wildcard,"local_cert":sc.local_cert,"api":"cabi"}));
    } else {
        sink.emit(json!({"e":"tlsc_cfg","id":sc.id,"mode":sc.mode,"min_tls":sc.min_tls,"trust":sc.peer_cert,
            "name":sc.name.clone().unwrap_or_default(),"local_cert":sc.local_cert}));
    }
    let min = if sc.min_tls == "1.3" { MinTlsVersion::V1_3 } else { MinTlsVersion::V1_2 };
    for st in &sc.steps {
        let peer = st.tls.clone().unwrap_or_default();
        let listener = tokio::net::TcpListener::bind("127.0.0.1:0").await.unwrap();
        let port = listener.local_addr().unwrap().port();
        if cabi {
            let states = Arc::new(std::sync::Mutex::new(Vec::new()));
            let created = {
                let (sink2, states2) = (sink.clone(), states.clone());
                let sc2 = CabiClientCfg { dns: sc.dns.clone(), wildcard: sc.wildcard, peer_cert: sc.peer_cert.clone(), local_cert: sc.local_cert.clone(),
                    min_tls: sc.min_tls.clone(), mode: sc.mode.clone() };
                off_runtime(move || cabi_tls_client_create_cfg(&sc2, port, &sink2, &states2)).await
            };
            let (ch, rt) = match created {
                Ok(x) => x,
                Err(rc) => {
                    sink.emit(json!({"e":"create_failed","why":format!("rc={rc}")}));
                    continue;
                }
            };
            let (stream, _) = match tokio::time::timeout(Duration::from_secs(3), listener.accept()).await {
                Ok(Ok(x)) => x,
                _ => {
                    sink.emit(json!({"e":"tlsc","cert":peer.cert.clone().unwrap_or_default(),"versions":peer.versions,"outcome":"noconnect","version":""}));
                    off_runtime(move || cabi_client_destroy(ch, rt)).await;
                    continue;
                }
            };
            let acceptor = match server_config(peer.cert.as_deref().unwrap_or("server"), &peer.versions) {
                Ok(c) => tokio_rustls::TlsAcceptor::from(Arc::new(c)),
                Err(e) => {
                    sink.emit(json!({"e":"tls","outcome":"config_error","err":e}));
                    off_runtime(move || cabi_client_destroy(ch, rt)).await;
                    continue;
                }
            };
            let accepted = tokio::time::timeout(Duration::from_secs(3), acceptor.accept(stream)).await;
            let t0 = std::time::Instant::now();
            let mut verdict = "none".to_string();
            while t0.elapsed() < Duration::from_secs(3) {
                let g = states.lock().unwrap();
                if let Some(x) = g.iter().find(|x| *x == "Connected" || x.starts_with("WaitAfter")) {
                    verdict = x.clone();
                    break;
                }
                drop(g);
                tokio::time::sleep(Duration::from_millis(5)).await;
            }
            let (srv_ok, version) = match &accepted {
                Ok(Ok(s)) => (true, match s.get_ref().1.protocol_version() {
                    Some(rustls::ProtocolVersion::TLSv1_2) => "1.2",
                    Some(rustls::ProtocolVersion::TLSv1_3) => "1.3",
                    _ => "?",
                }),
                _ => (false, ""),
            };
            let mut modbus = "none".to_string();
            if let (Ok(Ok(mut s)), true) = (accepted, verdict == "Connected") {
                let reqt = tokio::spawn(off_runtime(move || cabi_read_one(ch)));
                let mut buf = [0u8; 64];
                if let Ok(Ok(n)) = tokio::time::timeout(Duration::from_secs(2), s.read(&mut buf)).await {
                    if n >= 12 {
                        let rsp = [buf[0], buf[1], 0, 0, 0, 5, buf[6], 3, 2, 0, 9];
                        let _ = s.write_all(&rsp).await;
                    }
                }
                modbus = match tokio::time::timeout(Duration::from_secs(3), reqt).await {
                    Ok(Ok(v)) => v,
                    _ => "pending".to_string(),
                };
            }
            sink.emit(json!({"e":"tlsc","cert":peer.cert.clone().unwrap_or_default(),"versions":peer.versions,
                "outcome": if verdict == "Connected" { "connected" } else if verdict.starts_with("WaitAfter") { "failed" } else { "none" },
                "verdict":verdict,"server_side_established":srv_ok,"version":version,"modbus":modbus}));
            off_runtime(move || cabi_client_destroy(ch, rt)).await;
            continue;
        }
        #[allow(deprecated)]
        let cfg = if sc.ctor == "legacy" {
            TlsClientConfig::new(
                sc.name.as_deref().unwrap_or("unused.example"),
                std::path::Path::new(&pem_path(&sc.peer_cert, "cert")),
                std::path::Path::new(&pem_path(&sc.local_cert, "cert")),
                std::path::Path::new(&pem_path(&sc.local_cert, "key")),
                None,
                min,
                if sc.mode == "self" { CertificateMode::SelfSigned } else { CertificateMode::AuthorityBased },
            )
        } else if sc.mode == "self" {
            TlsClientConfig::self_signed(
                std::path::Path::new(&pem_path(&sc.peer_cert, "cert")),
                std::path::Path::new(&pem_path(&sc.local_cert, "cert")),
                std::path::Path::new(&pem_path(&sc.local_cert, "key")),
                None,
                min,
            )
        } else {
            TlsClientConfig::full_pki(
                sc.name.clone(),
                std::path::Path::new(&pem_path(&sc.peer_cert, "cert")),
                std::path::Path::new(&pem_path(&sc.local_cert, "cert")),
                std::path::Path::new(&pem_path(&sc.local_cert, "key")),
                None,
                min,
            )
        };
        let cfg = match cfg {
            Ok(c) => c,
            Err(e) => {
                sink.emit(json!({"e":"create_failed","why":format!("{e}")}));
                continue;
            }
        };
        let states = Arc::new(std::sync::Mutex::new(Vec::new()));
        let (channel, task) = create_tls_client_task_with_options(
            HostAddr::ip("127.0.0.1".parse().unwrap(), port),
            doubling_retry_strategy(Duration::from_millis(200), Duration::from_millis(200)),
            cfg,
            Some(Box::new(StateLog { sink: sink.clone(), last: states.clone() })),
            ClientOptions::default(),
        );
        let task = tokio::spawn(task.run());
        let _ = channel.enable().await;
        let (stream, _) = match tokio::time::timeout(Duration::from_secs(3), listener.accept()).await {
            Ok(Ok(x)) => x,
            _ => {
                sink.emit(json!({"e":"tlsc","cert":peer.cert.clone().unwrap_or_default(),"versions":peer.versions,"outcome":"noconnect","version":""}));
                continue;
            }
        };
        if st.silent {
            // the peer accepts TCP and then says nothing: the handshake stalls
            let t0 = std::time::Instant::now();
            let ch2 = channel.clone();
            let reqt = tokio::spawn(async move {
                ch2.read_coils(RequestParam::new(UnitId::new(1), Duration::from_millis(200)), AddressRange::try_from(0, 1).unwrap()).await
            });
            let req_done = tokio::time::timeout(Duration::from_millis(2500), reqt).await;
            let req_ms = t0.elapsed().as_millis() as u64;
            // what the listener has been told while the handshake is stalled (no connection exists yet)
            let state_during_stall = states.lock().unwrap().last().cloned().unwrap_or_default();
            let _ = channel.shutdown().await;
            let mut task = task;
            let ended = tokio::time::timeout(Duration::from_millis(2500), &mut task).await.is_ok();
            sink.emit(json!({"e":"tlsc_stall","request_completed":req_done.is_ok(),
                "request_result": match &req_done { Ok(Ok(r)) => format!("{r:?}").split('(').next().unwrap_or("").to_string(), _ => "pending".to_string() },
                "request_ms":req_ms,"task_ended_after_shutdown":ended,"state_during_stall":state_during_stall}));
            if !ended {
                task.abort();
            }
            drop(stream);
            continue;
        }
        let acceptor = match server_config(peer.cert.as_deref().unwrap_or("server"), &peer.versions) {
            Ok(c) => tokio_rustls::TlsAcceptor::from(Arc::new(c)),
            Err(e) => {
                sink.emit(json!({"e":"tls","outcome":"config_error","err":e}));
                continue;
            }
        };
        let accepted = tokio::time::timeout(Duration::from_secs(3), acceptor.accept(stream)).await;
        // what the client made of it: Connected, or a wait state after the failed attempt
        let t0 = std::time::Instant::now();
        let mut verdict = "none".to_string();
        while t0.elapsed() < Duration::from_secs(3) {
            let g = states.lock().unwrap();
            if let Some(x) = g.iter().find(|x| *x == "Connected" || x.starts_with("WaitAfter")) {
                verdict = x.clone();
                break;
            }
            drop(g);
            tokio::time::sleep(Duration::from_millis(5)).await;
        }
        let (srv_ok, version) = match &accepted {
            Ok(Ok(s)) => (true, match s.get_ref().1.protocol_version() {
                Some(rustls::ProtocolVersion::TLSv1_2) => "1.2",
                Some(rustls::ProtocolVersion::TLSv1_3) => "1.3",
                _ => "?",
            }),
            _ => (false, ""),
        };
        let mut modbus = "none".to_string();
        if let (Ok(Ok(mut s)), true) = (accepted, verdict == "Connected") {
            // Modbus flows only over the established session
            let ch2 = channel.clone();
            let reqt = tokio::spawn(async move {
                ch2.read_holding_registers(RequestParam::new(UnitId::new(1), Duration::from_millis(1500)), AddressRange::try_from(0, 1).unwrap()).await
            });
            let mut buf = [0u8; 64];
            if let Ok(Ok(n)) = tokio::time::timeout(Duration::from_secs(2), s.read(&mut buf)).await {
                if n >= 12 {
                    let rsp = [buf[0], buf[1], 0, 0, 0, 5, buf[6], 3, 2, 0, 9];
                    let _ = s.write_all(&rsp).await;
                }
            }
            modbus = match tokio::time::timeout(Duration::from_secs(2), reqt).await {
                Ok(Ok(Ok(v))) => format!("ok{}", v.first().map(|x| x.value).unwrap_or(0)),
                Ok(Ok(Err(e))) => format!("{e:?}"),
                _ => "pending".to_string(),
            };
        }
        sink.emit(json!({"e":"tlsc","cert":peer.cert.clone().unwrap_or_default(),"versions":peer.versions,
            "outcome": if verdict == "Connected" { "connected" } else if verdict.starts_with("WaitAfter") { "failed" } else { "none" },
            "verdict":verdict,"server_side_established":srv_ok,"version":version,"modbus":modbus}));
        let _ = channel.shutdown().await;
        let _ = tokio::time::timeout(Duration::from_secs(2), task).await;
    }
    sink.emit(json!({"e":"scenario_end"}));
}

/// wildcard strings through `WildcardIPv4::from_str` and `rodbus_address_filter_create`
async fn run_wildcards(sc: &Scenario, sink: &Sink) {
    sink.emit(json!({"e":"wild_cfg","id":sc.id}));
    for st in &sc.steps {
        let text: String = st.fields.iter().map(|f| f.concat()).collect::<Vec<String>>().join(".");
        let rust = text.parse::<WildcardIPv4>().is_ok();
        let t2 = text.clone();
        let cabi_ok = off_runtime(move || unsafe {
            match std::ffi::CString::new(t2) {
                Err(_) => false,
                Ok(c) => {
                    let mut out: *mut rodbus_ffi::AddressFilter = std::ptr::null_mut();
                    let rc = rodbus_ffi::ffi::rodbus_address_filter_create(c.as_ptr(), &mut out);
                    if rc == 0 {
                        rodbus_ffi::ffi::rodbus_address_filter_destroy(out);
                    }
                    rc == 0
                }
            }
        })
        .await;
        sink.emit(json!({"e":"wild","fields":st.fields,"text":text,"rust":rust,"cabi":cabi_ok}));
    }
}

async fn run_scenario(sc: &Scenario, sink: &Sink) {
    vharness::handlers::SLOW_GATE.open();
    if sc.variant == "wild" {
        return run_wildcards(sc, sink).await;
    }
    if sc.variant == "tls_client" {
        return run_tls_client(sc, sink).await;
    }
    if sc.variant == "tcp_client" {
        return run_tcp_client_lifecycle(sc, sink).await;
    }
    let (htx, mut hrx) = tokio::sync::mpsc::unbounded_channel::<Event>();
    {
        let sink = sink.clone();
        rodbus::verif::install_sink(Some(Box::new(move |ev: &Event| {
            let v = match ev {
                Event::Filter { addr, matches } => json!({"e":"filter","addr":octets(addr),"matches":matches}),
                Event::Track { id, evicted, size } => json!({"e":"track","id":*id as u64,"evicted":evicted.map(|x| x as i64).unwrap_or(-1),"size":size}),
                Event::Untrack { id, size } => json!({"e":"untrack","id":*id as u64,"size":size}),
                Event::ServerEnd => json!({"e":"server_end"}),
            };
            sink.emit(v);
            let _ = htx.send(*ev);
        })));
    }
    let ip: IpAddr = sc.listen.parse().unwrap();
    let holes: Vec<Hole> = vec![];
    sink.emit(json!({"e":"srv_cfg","id":sc.id,"variant":sc.variant,"api":sc.api,"mode":sc.mode,"min_tls":sc.min_tls,
        "max_sessions":sc.max_sessions,"listen":sc.listen,
        "filter":{"kind":sc.filter.kind,"addrs":sc.filter.addrs.iter().map(|a| octets_of(a)).collect::<Vec<_>>(),"fields":sc.filter.fields},
        "units":sc.units,"seed":sc.seed,"auth":sc.auth.clone().unwrap_or_else(|| "allow".into()),"server_cert":sc.server_cert,"peer_cert":sc.peer_cert}));

    // ---- create the server through the public constructors
    let mut server = ServerH::None;
    let port;
    if sc.api == "cabi" {
        port = free_port(ip);
        let scj = serde_json::to_string(&ScenarioLite::from(sc)).unwrap();
        let listen = sc.listen.clone();
        let created = off_runtime(move || {
            let sc: ScenarioLite = serde_json::from_str(&scj).unwrap();
            cabi::create(&sc, &listen, port).map(|(s, rt)| (s as usize, rt as usize))
        })
        .await;
        match created {
            Ok((s, rt)) => server = ServerH::Cabi(s as *mut rodbus_ffi::Server, rt as *mut rodbus_ffi::Runtime),
            Err(e) => {
                sink.emit(json!({"e":"create_failed","why":e}));
                rodbus::verif::install_sink(None);
                return;
            }
        }
    } else {
        let filter = match make_filter(&sc.filter) {
            Ok(f) => f,
            Err(e) => {
                sink.emit(json!({"e":"create_failed","why":e}));
                rodbus::verif::install_sink(None);
                return;
            }
        };
        let mut map = ServerHandlerMap::new();
        for u in &sc.units {
            map.add(UnitId::new(*u), DbHandler::new(*u, sc.seed, &holes, sink.clone()).wrap());
        }
        let listener = tokio::net::TcpListener::bind(SocketAddr::new(ip, 0)).await.unwrap();
        port = listener.local_addr().unwrap().port();
        let (handle, task) = match sc.variant.as_str() {
            "tcp" => create_tcp_server_task(sc.max_sessions, listener, map, filter, DecodeLevel::nothing()),
            v => {
                let mode = if sc.mode == "self" { CertificateMode::SelfSigned } else { CertificateMode::AuthorityBased };
                let min = if sc.min_tls == "1.3" { MinTlsVersion::V1_3 } else { MinTlsVersion::V1_2 };
                let cfg = match TlsServerConfig::new(
                    std::path::Path::new(&pem_path(&sc.peer_cert, "cert")),
                    std::path::Path::new(&pem_path(&sc.server_cert, "cert")),
                    std::path::Path::new(&pem_path(&sc.server_cert, "key")),
                    None,
                    min,
                    mode,
                ) {
                    Ok(c) => c,
                    Err(e) => {
                        sink.emit(json!({"e":"create_failed","why":format!("{e}")}));
                        rodbus::verif::install_sink(None);
                        return;
                    }
                };
                if v == "tls" {
                    create_tls_server_task(sc.max_sessions, listener, map, cfg, filter, DecodeLevel::nothing())
                } else {
                    let auth = PolicyAuth::create(
                        AuthCfg { policy: sc.auth.clone().unwrap_or_else(|| "allow".into()), seed: 1, role: String::new() },
                        sink.clone(),
                    );
                    create_tls_server_task_with_authz(sc.max_sessions, listener, map, auth, cfg, filter, DecodeLevel::nothing())
                }
            }
        };
        tokio::spawn(task.run());
        server = ServerH::Rust(Some(handle));
    }
    let target = SocketAddr::new(if ip.is_unspecified() { "127.0.0.1".parse().unwrap() } else { ip }, port);
    sink.emit(json!({"e":"listening"}));

    let mut peers: HashMap<usize, Peer> = HashMap::new();
    let mut flooders: std::collections::HashSet<usize> = std::collections::HashSet::new();
    let mut ended = false;

    for st in &sc.steps {
        match st.op.as_str() {
            "connect" => {
                let src: IpAddr = st.src.parse().unwrap();
                sink.emit(json!({"e":"connecting","c":st.c,"src":octets(&src),"silent":st.silent}));
                let sock = if src.is_ipv4() { TcpSocket::new_v4() } else { TcpSocket::new_v6() }.unwrap();
                let _ = sock.bind(SocketAddr::new(src, 0));
                let tgt = if src.is_ipv6() && target.is_ipv4() { target } else { target };
                let res = tokio::time::timeout(Duration::from_secs(2), sock.connect(tgt)).await;
                let stream = match res {
                    Ok(Ok(s)) => s,
                    _ => {
                        sink.emit(json!({"e":"connected","c":st.c,"result":"refused"}));
                        continue;
                    }
                };
                let _ = stream.set_nodelay(true);
                if ended {
                    // a listener that still accepts after the server ended
                    sink.emit(json!({"e":"connected","c":st.c,"result":"ok"}));
                    let mut c = Conn::Plain(stream);
                    let (o, n) = peer_view(&mut c, 500).await;
                    sink.emit(json!({"e":"peer_view","c":st.c,"outcome":o,"n":n}));
                    continue;
                }
                let f = wait_hook(&mut hrx, |e| matches!(e, Event::Filter { .. }), 3000).await;
                let matched = match f {
                    Some(Event::Filter { matches, .. }) => matches,
                    _ => {
                        sink.emit(json!({"e":"noaccept","c":st.c}));
                        continue;
                    }
                };
                if !matched {
                    sink.emit(json!({"e":"connected","c":st.c,"result":"ok"}));
                    let mut c = Conn::Plain(stream);
                    let (o, n) = peer_view(&mut c, 2000).await;
                    sink.emit(json!({"e":"peer_view","c":st.c,"outcome":o,"n":n}));
                    continue;
                }
                let t = wait_hook(&mut hrx, |e| matches!(e, Event::Track { .. }), 3000).await;
                let (id, evicted) = match t {
                    Some(Event::Track { id, evicted, .. }) => (id, evicted),
                    _ => {
                        sink.emit(json!({"e":"notrack","c":st.c}));
                        continue;
                    }
                };
                sink.emit(json!({"e":"connected","c":st.c,"result":"ok"}));
                let conn = if sc.variant != "tcp" && !st.silent {
                    let peer = st.tls.clone().unwrap_or(TlsPeer { cert: Some("client_operator".into()), versions: vec!["1.2".into(), "1.3".into()], chain: vec![] });
                    match client_config(&peer) {
                        Err(e) => {
                            sink.emit(json!({"e":"tls","c":st.c,"outcome":"config_error","err":e}));
                            Conn::Plain(stream)
                        }
                        Ok(cfg) => {
                            let connector = tokio_rustls::TlsConnector::from(Arc::new(cfg));
                            let name = rustls::pki_types::ServerName::try_from("test.com").unwrap();
                            match tokio::time::timeout(Duration::from_secs(3), connector.connect(name, stream)).await {
                                Ok(Ok(mut s)) => {
                                    // TLS 1.3: a refused client certificate only shows on the first read
                                    let v = match s.get_ref().1.protocol_version() {
                                        Some(rustls::ProtocolVersion::TLSv1_2) => "1.2",
                                        Some(rustls::ProtocolVersion::TLSv1_3) => "1.3",
                                        _ => "?",
                                    };
                                    let mut probe = [0u8; 1];
                                    let early = tokio::time::timeout(Duration::from_millis(300), s.read(&mut probe)).await;
                                    match early {
                                        Err(_) => {
                                            sink.emit(json!({"e":"tls","c":st.c,"outcome":"established","version":v,"cert":peer.cert.clone().unwrap_or_else(|| "none".into()),"versions":peer.versions}));
                                            Conn::Tls(Box::new(s))
                                        }
                                        Ok(r) => {
                                            sink.emit(json!({"e":"tls","c":st.c,"outcome":"rejected","version":v,"cert":peer.cert.clone().unwrap_or_else(|| "none".into()),"versions":peer.versions,"err":format!("{r:?}")}));
                                            drop(s);
                                            let _ = wait_hook(&mut hrx, |e| matches!(e, Event::Untrack { id: i, .. } if *i == id), 2000).await;
                                            if let Some(ev) = evicted {
                                                view_evicted(&mut peers, ev, sink).await;
                                            }
                                            continue;
                                        }
                                    }
                                }
                                Ok(Err(e)) => {
                                    sink.emit(json!({"e":"tls","c":st.c,"outcome":"rejected","version":"","cert":peer.cert.clone().unwrap_or_else(|| "none".into()),"versions":peer.versions,"err":e.to_string()}));
                                    peers.remove(&st.c);
                                    // the server side ends its session
                                    let _ = wait_hook(&mut hrx, |e| matches!(e, Event::Untrack { id: i, .. } if *i == id), 2000).await;
                                    if let Some(ev) = evicted {
                                        view_evicted(&mut peers, ev, sink).await;
                                    }
                                    continue;
                                }
                                Err(_) => {
                                    sink.emit(json!({"e":"tls","c":st.c,"outcome":"timeout","version":"","cert":peer.cert.clone().unwrap_or_else(|| "none".into()),"versions":peer.versions}));
                                    continue;
                                }
                            }
                        }
                    }
                } else {
                    Conn::Plain(stream)
                };
                peers.insert(st.c, Peer { conn, id: Some(id), tx: (st.c as u16) << 8 });
                if let Some(ev) = evicted {
                    view_evicted(&mut peers, ev, sink).await;
                }
            }
            "req" => {
                let p = match peers.get_mut(&st.c) {
                    Some(p) => p,
                    None => continue,
                };
                p.tx = p.tx.wrapping_add(1);
                let len = (st.pdu.len() + 1) as u16;
                let mut f = vec![(p.tx >> 8) as u8, p.tx as u8, 0, 0, (len >> 8) as u8, len as u8, st.unit];
                f.extend_from_slice(&st.pdu);
                sink.emit(json!({"e":"req","c":st.c,"bytes":bytes_json(&f)}));
                if p.conn.write_all(&f).await.is_err() {
                    sink.emit(json!({"e":"rsp","c":st.c,"outcome":"eof","bytes":[]}));
                    continue;
                }
                match read_frame(&mut p.conn, 2500).await {
                    Ok(b) => sink.emit(json!({"e":"rsp","c":st.c,"outcome":"reply","bytes":bytes_json(&b)})),
                    Err(why) => sink.emit(json!({"e":"rsp","c":st.c,"outcome":why,"bytes":[]})),
                }
            }
            "req_start" => {
                let p = match peers.get_mut(&st.c) {
                    Some(p) => p,
                    None => continue,
                };
                p.tx = p.tx.wrapping_add(1);
                let len = (st.pdu.len() + 1) as u16;
                let mut f = vec![(p.tx >> 8) as u8, p.tx as u8, 0, 0, (len >> 8) as u8, len as u8, st.unit];
                f.extend_from_slice(&st.pdu);
                sink.emit(json!({"e":"req","c":st.c,"bytes":bytes_json(&f)}));
                // the slow handler (if the request reaches it) stays busy until `rsp_wait`
                vharness::handlers::SLOW_GATE.close();
                let _ = p.conn.write_all(&f).await;
                tokio::time::sleep(Duration::from_millis(150)).await;
            }
            "rsp_wait" => {
                vharness::handlers::SLOW_GATE.open();
                let p = match peers.get_mut(&st.c) {
                    Some(p) => p,
                    None => continue,
                };
                match read_frame(&mut p.conn, 4000).await {
                    Ok(b) => sink.emit(json!({"e":"rsp","c":st.c,"outcome":"reply","bytes":bytes_json(&b)})),
                    Err(why) => sink.emit(json!({"e":"rsp","c":st.c,"outcome":why,"bytes":[]})),
                }
            }
            "close" => {
                if let Some(p) = peers.remove(&st.c) {
                    sink.emit(json!({"e":"close","c":st.c}));
                    let id = p.id;
                    drop(p);
                    if let Some(id) = id {
                        if wait_hook(&mut hrx, |e| matches!(e, Event::Untrack { id: i, .. } if *i == id), 3000).await.is_none() {
                            sink.emit(json!({"e":"nountrack","c":st.c}));
                        }
                    }
                }
            }
            "flood" => {
                // requests with large replies that the peer never reads: the session ends up blocked in its write
                if let Some(p) = peers.get_mut(&st.c) {
                    sink.emit(json!({"e":"flood","c":st.c}));
                    let pdu = [3u8, 0, 0, 0, 125];
                    let mut sent = 0u64;
                    let mut batch = Vec::new();
                    for i in 0..400u16 {
                        let mut f = vec![(i >> 8) as u8, i as u8, 0, 0, 0, 6, st.unit];
                        f.extend_from_slice(&pdu);
                        batch.extend_from_slice(&f);
                    }
                    loop {
                        match tokio::time::timeout(Duration::from_millis(300), p.conn.write_all(&batch)).await {
                            Ok(Ok(())) => sent += 400,
                            _ => break,
                        }
                        if sent > 400_000 {
                            break;
                        }
                    }
                    // the peer's writes stalling is not yet the session being parked in its write (socket buffers keep
                    // growing for a while): wait until the library has stopped calling the handlers altogether
                    let mut quiet = 0;
                    let mut last = sink.progress();
                    let t0 = std::time::Instant::now();
                    while quiet < 3 && t0.elapsed() < Duration::from_secs(20) {
                        tokio::time::sleep(Duration::from_millis(150)).await;
                        let now = sink.progress();
                        if now == last {
                            quiet += 1;
                        } else {
                            quiet = 0;
                            last = now;
                        }
                    }
                    sink.emit(json!({"e":"flood_done","c":st.c,"requests_written":sent,"parked_after_ms":t0.elapsed().as_millis() as u64}));
                    flooders.insert(st.c);
                }
            }
            "close_many" => {
                // many peers go away in the same instant
                let mut ids = Vec::new();
                let mut gone = Vec::new();
                for c in &st.cs {
                    if let Some(p) = peers.remove(c) {
                        sink.emit(json!({"e":"close","c":c}));
                        if let Some(id) = p.id {
                            ids.push((*c, id));
                        }
                        gone.push(p);
                    }
                }
                drop(gone);
                let deadline = tokio::time::Instant::now() + Duration::from_millis(3000);
                let mut pending: std::collections::HashSet<u128> = ids.iter().map(|x| x.1).collect();
                while !pending.is_empty() {
                    match tokio::time::timeout_at(deadline, hrx.recv()).await {
                        Ok(Some(Event::Untrack { id, .. })) => {
                            pending.remove(&id);
                        }
                        Ok(Some(_)) => {}
                        _ => break,
                    }
                }
                for (c, id) in ids {
                    if pending.contains(&id) {
                        sink.emit(json!({"e":"nountrack","c":c}));
                    }
                }
            }
            "send" => {
                if let Some(p) = peers.get_mut(&st.c) {
                    sink.emit(json!({"e":"send","c":st.c,"bytes":bytes_json(&st.bytes)}));
                    let _ = p.conn.write_all(&st.bytes).await;
                    let id = p.id;
                    if let Some(id) = id {
                        if wait_hook(&mut hrx, |e| matches!(e, Event::Untrack { id: i, .. } if *i == id), 3000).await.is_none() {
                            sink.emit(json!({"e":"nountrack","c":st.c}));
                        }
                    }
                    let (o, n) = peer_view(&mut p.conn, 2000).await;
                    sink.emit(json!({"e":"peer_view","c":st.c,"outcome":o,"n":n}));
                    peers.remove(&st.c);
                }
            }
            "partial" => {
                // bytes that leave the session waiting for more: no event expected
                if let Some(p) = peers.get_mut(&st.c) {
                    sink.emit(json!({"e":"partial","c":st.c,"bytes":bytes_json(&st.bytes)}));
                    let _ = p.conn.write_all(&st.bytes).await;
                }
            }
            "decode" => {
                sink.emit(json!({"e":"cmd","kind":"decode"}));
                match &mut server {
                    ServerH::Rust(Some(h)) => {
                        // (a server task that no longer takes commands must not hold the script up for long)
                        let _ = tokio::time::timeout(Duration::from_millis(400), h.set_decode_level(decode_level(&st.level))).await;
                    }
                    ServerH::Cabi(s, _) => {
                        let (s, lv) = (*s as usize, st.level.clone());
                        let _ = off_runtime(move || cabi::set_decode(s as *mut rodbus_ffi::Server, &lv)).await;
                    }
                    _ => {}
                }
            }
            "shutdown" | "drop" => {
                if ended {
                    continue;
                }
                sink.emit(json!({"e":"cmd","kind":st.op}));
                match std::mem::replace(&mut server, ServerH::None) {
                    ServerH::Rust(Some(h)) => {
                        if st.op == "shutdown" {
                            let _ = tokio::time::timeout(Duration::from_secs(2), h.shutdown()).await;
                            server = ServerH::Rust(Some(h));
                        } else {
                            drop(h);
                        }
                    }
                    ServerH::Cabi(s, rt) => {
                        let _ = off_runtime({
                            let (s, rt) = (s as usize, rt as usize);
                            move || cabi::destroy(s as *mut rodbus_ffi::Server, rt as *mut rodbus_ffi::Runtime)
                        })
                        .await;
                    }
                    other => server = other,
                }
                if wait_hook(&mut hrx, |e| matches!(e, Event::ServerEnd), 3000).await.is_none() {
                    sink.emit(json!({"e":"no_server_end"}));
                }
                ended = true;
                let mut ids: Vec<usize> = peers.keys().copied().collect();
                ids.sort();
                // peers that never read (flooders) are looked at last: reading their backlog would unblock their session
                ids.sort_by_key(|c| flooders.contains(c));
                for c in ids {
                    let p = peers.get_mut(&c).unwrap();
                    let (o, n) = peer_view(&mut p.conn, 2000).await;
                    sink.emit(json!({"e":"peer_view","c":c,"outcome":o,"n":n}));
                }
                peers.clear();
            }
            _ => {}
        }
    }
    // teardown
    if !ended {
        sink.emit(json!({"e":"cmd","kind":"teardown"}));
        match std::mem::replace(&mut server, ServerH::None) {
            ServerH::Rust(h) => drop(h),
            ServerH::Cabi(s, rt) => {
                let _ = off_runtime({
                    let (s, rt) = (s as usize, rt as usize);
                    move || cabi::destroy(s as *mut rodbus_ffi::Server, rt as *mut rodbus_ffi::Runtime)
                })
                .await;
            }
            ServerH::None => {}
        }
        let _ = wait_hook(&mut hrx, |e| matches!(e, Event::ServerEnd), 3000).await;
    }
    peers.clear();
    tokio::time::sleep(Duration::from_millis(30)).await;
    rodbus::verif::install_sink(None);
    sink.emit(json!({"e":"scenario_end"}));
}

async fn view_evicted(peers: &mut HashMap<usize, Peer>, evicted: u128, sink: &Sink) {
    let c = peers.iter().find(|(_, p)| p.id == Some(evicted)).map(|(c, _)| *c);
    if let Some(c) = c {
        let p = peers.get_mut(&c).unwrap();
        let (o, n) = peer_view(&mut p.conn, 2000).await;
        sink.emit(json!({"e":"peer_view","c":c,"outcome":o,"n":n}));
        if o != "open" {
            peers.remove(&c);
        }
    }
}

fn main() {
    let args: Vec<String> = std::env::args().collect();
    let scripts = std::fs::File::open(&args[1]).expect("scripts");
    let out = std::fs::File::create(&args[2]).expect("trace");
    let sink = Sink::new(Box::new(std::io::BufWriter::new(out)));
    sink.set_run_length(true);
    install_panic_hook();
    install_tracing();
    let wd = Watchdog::start(sink.clone(), 120);
    let rt = tokio::runtime::Builder::new_multi_thread()
        .worker_threads(3)
        .enable_all()
        .build()
        .unwrap();
    // A session that sits in a slow (synchronous) application handler blocks one worker thread. If that worker was the one
    // holding the runtime's I/O + time driver and the others are asleep, nothing polls the driver until some task is
    // scheduled -- the harness's own timers and sockets would stand still with it. A heartbeat from a plain thread keeps
    // waking a worker, which then parks on the driver again.
    {
        let handle = rt.handle().clone();
        std::thread::spawn(move || loop {
            std::thread::sleep(Duration::from_millis(10));
            handle.spawn(async {});
        });
    }
    for line in std::io::BufReader::new(scripts).lines() {
        let line = line.unwrap();
        if line.trim().is_empty() {
            continue;
        }
        let sc: Scenario = serde_json::from_str(&line).expect("scenario json");
        wd.scenario(sc.id);
        if sc.rt == "current" {
            let rt1 = tokio::runtime::Builder::new_current_thread().enable_all().build().unwrap();
            rt1.block_on(run_scenario(&sc, &sink));
            rt1.shutdown_timeout(Duration::from_millis(500));
        } else {
            rt.block_on(run_scenario(&sc, &sink));
        }
        if let Some(p) = take_panic() {
            sink.emit(json!({"e":"panic","msg":p}));
        }
    }
    wd.done();
    sink.flush();
    eprintln!("e4_server: {} trace lines", sink.lines());
    let _: Option<Value> = None;
}
