//! master side of a pseudo-terminal: the harness plays the serial bus, the library opens the slave side
//! through tokio_serial like any serial device
use std::os::fd::RawFd;
use std::time::{Duration, Instant};

pub struct Pty {
    pub master: RawFd,
    pub path: String,
}

pub fn open_pty() -> Option<Pty> {
    unsafe {
        let m = libc::posix_openpt(libc::O_RDWR | libc::O_NOCTTY | libc::O_NONBLOCK);
        if m < 0 || libc::grantpt(m) != 0 || libc::unlockpt(m) != 0 {
            return None;
        }
        let mut buf = [0 as libc::c_char; 128];
        if libc::ptsname_r(m, buf.as_mut_ptr(), buf.len()) != 0 {
            return None;
        }
        let path = std::ffi::CStr::from_ptr(buf.as_ptr()).to_string_lossy().to_string();
        Some(Pty { master: m, path })
    }
}

impl Pty {
    pub fn write_all(&self, data: &[u8]) -> bool {
        let mut off = 0;
        let t0 = Instant::now();
        while off < data.len() && t0.elapsed() < Duration::from_secs(2) {
            let n = unsafe { libc::write(self.master, data[off..].as_ptr() as *const libc::c_void, data.len() - off) };
            if n > 0 {
                off += n as usize;
            } else {
                std::thread::sleep(Duration::from_millis(1));
            }
        }
        off == data.len()
    }
    pub fn read_some(&self, out: &mut Vec<u8>) -> usize {
        let mut buf = [0u8; 512];
        let n = unsafe { libc::read(self.master, buf.as_mut_ptr() as *mut libc::c_void, buf.len()) };
        if n > 0 {
            out.extend_from_slice(&buf[..n as usize]);
            n as usize
        } else {
            0
        }
    }
}

impl Drop for Pty {
    fn drop(&mut self) {
        unsafe {
            libc::close(self.master);
        }
    }
}

