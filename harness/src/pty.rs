//! master side of a pseudo-terminal: the harness plays the serial bus, the library opens the slave side
//! through tokio_serial like any serial device
use std::os::fd::RawFd;
use std::time::{Duration, Instant};

pub struct Pty {
    pub master: RawFd,
    pub path: String,
    /// a second descriptor on the slave side, opened before the library opens the device: never read from, only asked
    /// how much input the library has not taken yet and whether the library has configured the line
    probe: RawFd,
}

pub fn open_pty() -> Option<Pty> {
    unsafe {
        let m = libc::posix_openpt(libc::O_RDWR | libc::O_NOCTTY | libc::O_NONBLOCK);
        if m < 0 || libc::grantpt(m) != 0 || libc::unlockpt(m) != 0 {
            return None;
        }
        let mut buf = [0 as libc::c_char; 128];
        if libc::ptsname_r(m, buf.as_mut_ptr(), buf.len()) != 0 {
            return None;
        }
        let path = std::ffi::CStr::from_ptr(buf.as_ptr()).to_string_lossy().to_string();
        let probe = libc::open(buf.as_ptr(), libc::O_RDONLY | libc::O_NOCTTY | libc::O_NONBLOCK);
        Some(Pty { master: m, path, probe })
    }
}

impl Pty {
    pub fn write_all(&self, data: &[u8]) -> bool {
        let mut off = 0;
        let t0 = Instant::now();
        while off < data.len() && t0.elapsed() < Duration::from_secs(2) {
            let n = unsafe { libc::write(self.master, data[off..].as_ptr() as *const libc::c_void, data.len() - off) };
            if n > 0 {
                off += n as usize;
            } else {
                std::thread::sleep(Duration::from_millis(1));
            }
        }
        off == data.len()
    }
    pub fn read_some(&self, out: &mut Vec<u8>) -> usize {
        let mut buf = [0u8; 512];
        let n = unsafe { libc::read(self.master, buf.as_mut_ptr() as *mut libc::c_void, buf.len()) };
        if n > 0 {
            out.extend_from_slice(&buf[..n as usize]);
            n as usize
        } else {
            0
        }
    }
}

impl Pty {
    /// bytes written to the bus that the device's reader has not taken yet (0 when unknown)
    pub fn slave_pending(&self) -> usize {
        if self.probe < 0 {
            return 0;
        }
        let mut n: libc::c_int = 0;
        let rc = unsafe { libc::ioctl(self.probe, libc::FIONREAD, &mut n) };
        if rc == 0 && n > 0 {
            n as usize
        } else {
            0
        }
    }
    /// has the device been put into raw mode (no line discipline processing, no echo) -- what tokio_serial does on open
    pub fn slave_is_raw(&self) -> bool {
        if self.probe < 0 {
            return true;
        }
        unsafe {
            let mut t: libc::termios = std::mem::zeroed();
            if libc::tcgetattr(self.probe, &mut t) != 0 {
                return true;
            }
            t.c_lflag & (libc::ICANON | libc::ECHO) == 0
        }
    }
    /// wait (bounded) until the library has opened and configured the device
    pub fn wait_configured(&self, bound: Duration) -> bool {
        let t0 = Instant::now();
        while !self.slave_is_raw() && t0.elapsed() < bound {
            std::thread::sleep(Duration::from_millis(2));
        }
        self.slave_is_raw()
    }
    /// Wait until the bus is quiet.  First (bounded) until the device's reader has taken everything that was put on
    /// the bus -- a loaded machine may take long to schedule it --, then until neither `progress` (the trace) nor the bus
    /// has moved for `quiet`; a sleep of this thread that overshoots badly means the machine is busy and restarts the
    /// window, since the library's threads were then probably held up as well.
    pub fn until_quiet(&self, progress: &dyn Fn() -> u64, quiet: Duration, got: &mut Vec<u8>) {
        let t0 = Instant::now();
        while self.slave_pending() > 0 && t0.elapsed() < Duration::from_secs(15) {
            self.read_some(got);
            std::thread::sleep(Duration::from_millis(1));
        }
        let mut last = progress();
        let mut since = Instant::now();
        while since.elapsed() < quiet && t0.elapsed() < Duration::from_secs(20) {
            let n = self.read_some(got);
            let p = progress();
            if n > 0 || p != last || self.slave_pending() > 0 {
                last = p;
                since = Instant::now();
            }
            let s0 = Instant::now();
            std::thread::sleep(Duration::from_millis(2));
            if s0.elapsed() > Duration::from_millis(25) {
                since = Instant::now();
            }
        }
    }
}

impl Drop for Pty {
    fn drop(&mut self) {
        unsafe {
            if self.probe >= 0 {
                libc::close(self.probe);
            }
            libc::close(self.master);
        }
    }
}

