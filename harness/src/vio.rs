//! Scripted in-memory byte stream with socket semantics:
//! a read delivers min(head chunk, free space) bytes; EOF / read error / write error can be
//! injected; every write is recorded as one `tx` event.

use crate::trace::{bytes_json, Sink};
use serde_json::json;
use std::collections::VecDeque;
use std::io;
use std::pin::Pin;
use std::sync::{Arc, Mutex};
use std::task::{Context, Poll, Waker};
use tokio::io::{AsyncRead, AsyncWrite, ReadBuf};

#[derive(Default)]
struct Inner {
    chunks: VecDeque<Vec<u8>>,
    eof: bool,
    rerr: Option<io::ErrorKind>,
    werr: Option<io::ErrorKind>,
    waker: Option<Waker>,
    dropped: bool,
    zero_space_reads: u64,
    tx_log: Vec<Vec<u8>>,
    record_tx: bool,
    /// 0 = a write is taken whole; n > 0 = the transport takes at most n bytes per write call (a socket or tty whose
    /// transmit buffer is nearly full); what was taken is reported as one `tx` event when the writer goes back to reading
    max_write: usize,
    pending_tx: Vec<u8>,
    /// what the writer still has to offer of the buffer it is writing (write_all comes back with exactly this)
    expect_rest: Option<Vec<u8>>,
    /// the transport does not take any byte from the writer for now (its write stays pending)
    hold_writes: bool,
    wwaker: Option<Waker>,
}

pub struct ScriptIo {
    inner: Arc<Mutex<Inner>>,
    sink: Sink,
    tx_event: &'static str,
}

#[derive(Clone)]
pub struct IoHandle {
    inner: Arc<Mutex<Inner>>,
}

pub fn script_io(sink: Sink) -> (ScriptIo, IoHandle) {
    script_io_named(sink, "tx")
}

pub fn script_io_named(sink: Sink, tx_event: &'static str) -> (ScriptIo, IoHandle) {
    let inner = Arc::new(Mutex::new(Inner::default()));
    (
        ScriptIo {
            inner: inner.clone(),
            sink,
            tx_event,
        },
        IoHandle { inner },
    )
}

impl IoHandle {
    fn lock(&self) -> std::sync::MutexGuard<'_, Inner> {
        self.inner.lock().unwrap_or_else(|e| e.into_inner())
    }
    fn wake(g: &mut Inner) {
        if let Some(w) = g.waker.take() {
            w.wake();
        }
    }
    /// make one chunk available to the reader
    pub fn push(&self, bytes: &[u8]) {
        if bytes.is_empty() {
            return;
        }
        let mut g = self.lock();
        g.chunks.push_back(bytes.to_vec());
        Self::wake(&mut g);
    }
    /// peer closes: reads return 0 once the chunks are drained
    pub fn eof(&self) {
        let mut g = self.lock();
        g.eof = true;
        Self::wake(&mut g);
    }
    pub fn read_error(&self, kind: io::ErrorKind) {
        let mut g = self.lock();
        g.rerr = Some(kind);
        Self::wake(&mut g);
    }
    pub fn write_error(&self, kind: io::ErrorKind) {
        self.lock().werr = Some(kind);
    }
    pub fn clear_write_error(&self) {
        self.lock().werr = None;
    }
    pub fn is_dropped(&self) -> bool {
        self.lock().dropped
    }
    pub fn pending_bytes(&self) -> usize {
        self.lock().chunks.iter().map(|c| c.len()).sum()
    }
    pub fn zero_space_reads(&self) -> u64 {
        self.lock().zero_space_reads
    }
    /// the transport takes at most `n` bytes per write call from now on (0 = everything)
    pub fn set_max_write(&self, n: usize) {
        self.lock().max_write = n;
    }
    /// stop / resume taking bytes from the writer
    pub fn hold_writes(&self, on: bool) {
        let mut g = self.lock();
        g.hold_writes = on;
        if !on {
            if let Some(w) = g.wwaker.take() {
                w.wake();
            }
        }
    }
    pub fn record_tx(&self, on: bool) {
        self.lock().record_tx = on;
    }
    pub fn take_tx(&self) -> Vec<Vec<u8>> {
        std::mem::take(&mut self.lock().tx_log)
    }
}

impl Drop for ScriptIo {
    fn drop(&mut self) {
        let mut g = self.inner.lock().unwrap_or_else(|e| e.into_inner());
        g.dropped = true;
    }
}

impl AsyncRead for ScriptIo {
    fn poll_read(
        self: Pin<&mut Self>,
        cx: &mut Context<'_>,
        buf: &mut ReadBuf<'_>,
    ) -> Poll<io::Result<()>> {
        let mut g = self.inner.lock().unwrap_or_else(|e| e.into_inner());
        if !g.pending_tx.is_empty() {
            g.expect_rest = None;
            let bytes = std::mem::take(&mut g.pending_tx);
            if g.record_tx {
                g.tx_log.push(bytes.clone());
            }
            drop(g);
            self.sink.emit(json!({"e": self.tx_event, "bytes": bytes_json(&bytes)}));
            g = self.inner.lock().unwrap_or_else(|e| e.into_inner());
        }
        if let Some(front) = g.chunks.front_mut() {
            let n = std::cmp::min(front.len(), buf.remaining());
            if n == 0 {
                // a read into a zero-length buffer returns 0 on a real socket
                g.zero_space_reads += 1;
                self.sink.bump();
                return Poll::Ready(Ok(()));
            }
            buf.put_slice(&front[..n]);
            front.drain(..n);
            if front.is_empty() {
                g.chunks.pop_front();
            }
            self.sink.bump();
            return Poll::Ready(Ok(()));
        }
        if let Some(kind) = g.rerr {
            self.sink.bump();
            return Poll::Ready(Err(io::Error::from(kind)));
        }
        if g.eof {
            self.sink.bump();
            return Poll::Ready(Ok(()));
        }
        g.waker = Some(cx.waker().clone());
        Poll::Pending
    }
}

impl AsyncWrite for ScriptIo {
    fn poll_write(
        self: Pin<&mut Self>,
        cx: &mut Context<'_>,
        buf: &[u8],
    ) -> Poll<io::Result<usize>> {
        let mut g = self.inner.lock().unwrap_or_else(|e| e.into_inner());
        if g.hold_writes && g.werr.is_none() {
            g.wwaker = Some(cx.waker().clone());
            return Poll::Pending;
        }
        if let Some(kind) = g.werr {
            self.sink.bump();
            return Poll::Ready(Err(io::Error::from(kind)));
        }
        if g.max_write > 0 {
            // a buffer that is not the rest of the one being written starts a new frame: what was taken of the
            // previous one is all that will ever be sent of it
            let continuation = g.expect_rest.as_deref() == Some(buf);
            let mut out: Vec<Vec<u8>> = Vec::new();
            if !continuation && !g.pending_tx.is_empty() {
                out.push(std::mem::take(&mut g.pending_tx));
            }
            let n = std::cmp::min(g.max_write, buf.len());
            g.pending_tx.extend_from_slice(&buf[..n]);
            if n == buf.len() {
                g.expect_rest = None;
                out.push(std::mem::take(&mut g.pending_tx));
            } else {
                g.expect_rest = Some(buf[n..].to_vec());
            }
            if g.record_tx {
                for o in &out {
                    g.tx_log.push(o.clone());
                }
            }
            drop(g);
            self.sink.bump();
            for o in out {
                self.sink.emit(json!({"e": self.tx_event, "bytes": bytes_json(&o)}));
            }
            return Poll::Ready(Ok(n));
        }
        if g.record_tx {
            g.tx_log.push(buf.to_vec());
        }
        drop(g);
        self.sink
            .emit(json!({"e": self.tx_event, "bytes": bytes_json(buf)}));
        Poll::Ready(Ok(buf.len()))
    }

    fn poll_flush(self: Pin<&mut Self>, _cx: &mut Context<'_>) -> Poll<io::Result<()>> {
        Poll::Ready(Ok(()))
    }

    fn poll_shutdown(self: Pin<&mut Self>, _cx: &mut Context<'_>) -> Poll<io::Result<()>> {
        Poll::Ready(Ok(()))
    }
}
