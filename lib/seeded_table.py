#!/usr/bin/env python3
"""Regenerates the table of seeded changes in DESIGN.md (between the table header and the 'Hand-made' paragraph) from
seeded/*/meta.json, so that the document and the kept changes cannot drift apart."""
import glob
import json
import os
import re

root = os.path.dirname(os.path.dirname(os.path.abspath(__file__)))


def key(m):
    g = re.match(r"C(\d+)([a-z]?)-(\d+)", m["id"])
    return (int(g.group(1)), g.group(2), int(g.group(3)))


metas = sorted((json.load(open(p)) for p in glob.glob(os.path.join(root, "seeded", "*", "meta.json"))), key=key)
rows = ["| id | detected by | needs to manifest |", "|---|---|---|"]
for m in metas:
    needs = m["needs_to_manifest"].replace("|", "/")
    if m.get("history"):
        needs += " — " + m["history"].replace("|", "/")
    rows.append(f"| {m['id']} | {', '.join(m.get('detected_by') or ['—'])} | {needs} |")
p = os.path.join(root, "DESIGN.md")
t = open(p).read()
a = t.index("| id | detected by | needs to manifest |")
b = t.index("Hand-made single-site mutants from Appendix C")
t = t[:a] + "\n".join(rows) + "\n\n" + t[b:]
open(p, "w").write(t)
print(len(metas), "rows")
