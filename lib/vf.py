"""Shared machinery for the checks: build, TLC runs, trace validation, evidence, findings.

The oracle is always the TLA+ text evaluated by TLC.  Python only generates inputs,
orchestrates, and reports.
"""
import fcntl
import hashlib
import json
import os
import re
import shutil
import subprocess
import sys
import time

ROOT = os.path.dirname(os.path.dirname(os.path.abspath(__file__)))
REPO = os.environ.get("VERIF_REPO", "/repo")
SPEC = os.path.join(ROOT, "spec")
HARNESS = os.path.join(ROOT, "harness")
WORK = os.path.join(ROOT, "work")
EVID = os.path.join(ROOT, "evidence")
REPLAY_DIR = os.path.join(EVID, "replay")

REAL_CONSTS = {"MaxReadBits": 2000, "MaxReadRegs": 125, "MaxWriteCoils": 1968,
               "MaxWriteRegs": 123, "AddrSpace": 65536}


class ToolError(Exception):
    pass


def log(*a):
    print(*a, file=sys.stderr, flush=True)


def sh(cmd, cwd=None, env=None, timeout=None):
    e = dict(os.environ)
    if env:
        e.update(env)
    p = subprocess.run(cmd, cwd=cwd, env=e, stdout=subprocess.PIPE, stderr=subprocess.STDOUT,
                       timeout=timeout, text=True, errors="replace")
    return p.returncode, p.stdout


def _cpu_ticks(pid):
    """utime + stime of a process (all threads), in clock ticks; None when it is gone"""
    try:
        f = open(f"/proc/{pid}/stat").read()
        rest = f[f.rindex(")") + 2:].split()
        return int(rest[11]) + int(rest[12])
    except Exception:
        return None


def sh_java(cmd, cwd=None, env=None, timeout=None, stall=150, attempts=3):
    """Run a JVM tool (TLC).  TLC 1.8 can, very rarely and only under heavy machine load, dead-lock in its disk-backed state
    queue (all workers blocked on the queue monitor, its holder waiting for the pool writer; seen once in several
    thousand runs, thread dump in DESIGN.md).  Such a run burns no CPU at all, so it is recognised by `stall` seconds
    with less than 0.5 % of one core -- something a live TLC never shows, however loaded the machine -- killed and started again.  A run that
    is merely slow is never touched; the overall timeout applies across attempts."""
    import tempfile
    e = dict(os.environ)
    if env:
        e.update(env)
    t_end = None if timeout is None else time.time() + timeout
    for attempt in range(attempts):
        with tempfile.TemporaryFile(mode="w+", errors="replace") as outf:
            p = subprocess.Popen(cmd, cwd=cwd, env=e, stdout=outf, stderr=subprocess.STDOUT, text=True)
            last, last_t, stalled = _cpu_ticks(p.pid), time.time(), False
            while True:
                try:
                    p.wait(timeout=5)
                    break
                except subprocess.TimeoutExpired:
                    pass
                now = time.time()
                if t_end is not None and now > t_end:
                    p.kill()
                    p.wait()
                    raise subprocess.TimeoutExpired(cmd, timeout)
                if now - last_t >= stall:
                    c = _cpu_ticks(p.pid)
                    if c is not None and last is not None and c - last < stall // 2:      # < 0.5 % of one core over `stall` seconds
                        stalled = True
                        p.kill()
                        p.wait()
                        break
                    last, last_t = c, now
            outf.seek(0)
            out = outf.read()
        if not stalled:
            return p.returncode, out
        sys.stderr.write(f"note: JVM made no progress for {stall} s (TLC state-queue dead-lock), restarted: {' '.join(cmd[-3:])}\n")
    raise subprocess.TimeoutExpired(cmd, timeout or 0)


# --------------------------------------------------------------------------- build
_built = {}


def build_harness(profile="dev"):
    """(Re)build the harness against /repo's current working tree, hooks on. Serialized by flock."""
    if profile in _built:
        return _built[profile]
    os.makedirs(WORK, exist_ok=True)
    lockf = open(os.path.join(WORK, ".build.lock"), "w")
    fcntl.flock(lockf, fcntl.LOCK_EX)
    try:
        src = os.path.join(REPO, "Cargo.lock")
        dst = os.path.join(HARNESS, "Cargo.lock")
        if not os.path.exists(dst) or open(src).read() != open(dst).read():
            # keep our own additions resolved: start from the repository's lock file
            shutil.copyfile(src, dst)
        cmd = ["cargo", "build", "--offline", "--bins"]
        if profile == "release":
            cmd.append("--release")
        t0 = time.time()
        rc, out = sh(cmd, cwd=HARNESS, env={"CARGO_NET_OFFLINE": "true"}, timeout=1800)
        if rc != 0:
            log(out[-6000:])
            raise ToolError("harness build failed (the tree under /repo does not compile with hooks on?)")
        log(f"[build] harness ({profile}) ok in {time.time() - t0:.1f}s")
    finally:
        fcntl.flock(lockf, fcntl.LOCK_UN)
        lockf.close()
    d = os.path.join(HARNESS, "target", "release" if profile == "release" else "debug")
    _built[profile] = d
    return d


def harness_bin(name, profile="dev"):
    return os.path.join(build_harness(profile), name)


# --------------------------------------------------------------------------- TLC
TLC_JAVA_OPTS = "-Xss1g -Dtlc2.tool.queue.IStateQueue=StateDeque"


def _tlc_cmd(module, cfg, workers, metadir, extra=()):
    return ["tlc", "-workers", str(workers), "-metadir", metadir, "-cleanup", "-noGenerateSpecTE",
            "-config", cfg, *extra, module]


def parse_tlc_stats(out):
    st = {"states_generated": 0, "distinct": 0, "depth": 0}
    m = re.findall(r"(\d+) states generated, (\d+) distinct states found", out)
    if m:
        st["states_generated"] = int(m[-1][0])
        st["distinct"] = int(m[-1][1])
    m = re.findall(r"depth of the complete state graph search is (\d+)", out)
    if m:
        st["depth"] = int(m[-1])
    return st


def tlc_trace(module, cfg, trace_path, workdir, timeout=1800, xmx="4g"):
    """Validate one ndjson trace. Returns dict(accepted, states, reject_line, reject_info)."""
    os.makedirs(workdir, exist_ok=True)
    md = os.path.join(workdir, "md")
    env = {"TRACE": trace_path, "JAVA_TOOL_OPTIONS": f"{TLC_JAVA_OPTS} -Xmx{xmx}"}
    try:
        rc, out = sh_java(_tlc_cmd(module, cfg, 1, md), cwd=SPEC, env=env, timeout=timeout)
    except subprocess.TimeoutExpired:
        raise ToolError(f"TLC timed out validating {trace_path}")
    shutil.rmtree(md, ignore_errors=True)
    st = parse_tlc_stats(out)
    res = {"accepted": False, "states": st["distinct"], "transitions": st["states_generated"],
           "reject_line": None, "reject_info": None, "invariant": None, "raw": ""}
    if "Model checking completed. No error has been found." in out:
        res["accepted"] = True
        return res
    m = re.search(r'<<"REJECT", (\d+), "(.*)">>', out)
    if m and "Postcondition" in out:
        res["reject_line"] = int(m.group(1))
        try:
            s = bytes(m.group(2), "utf-8").decode("unicode_escape")
            res["reject_info"] = json.loads(s)
        except Exception:
            res["reject_info"] = m.group(2)
        return res
    m = re.search(r"Invariant (\w+) is violated", out)
    if m:
        res["invariant"] = m.group(1)
        res["raw"] = out[-3000:]
        # the line at which it happened is in the printed state (variable l)
        ls = re.findall(r"/\\ l = (\d+)", out)
        if ls:
            res["reject_line"] = int(ls[-1]) - 1
        return res
    raise ToolError("TLC failed while validating a trace:\n" + out[-4000:])


def tlc_mc(module, cfg, workdir, workers=8, timeout=3600, xmx="8g", extra=(), coverage=True, java_opts=""):
    """Design-level exhaustive run. Returns dict(ok, violated, stats, coverage, out)."""
    os.makedirs(workdir, exist_ok=True)
    md = os.path.join(workdir, "md_" + os.path.basename(cfg))
    env = {"JAVA_TOOL_OPTIONS": f"-Xss256m -Xmx{xmx} {java_opts}"}
    ex = list(extra)
    if coverage:
        ex += ["-coverage", "1"]
    t0 = time.time()
    try:
        rc, out = sh_java(_tlc_cmd(module, cfg, workers, md, ex), cwd=SPEC, env=env, timeout=timeout)
    except subprocess.TimeoutExpired:
        raise ToolError(f"TLC timed out on {module} / {cfg}")
    shutil.rmtree(md, ignore_errors=True)
    st = parse_tlc_stats(out)
    res = {"ok": False, "violated": None, "stats": st, "wall_s": round(time.time() - t0, 1), "out": out,
           "actions": {}}
    for m in re.finditer(r"<(\w+) line \d+, col \d+ to line \d+, col \d+ of module (\w+)>: (\d+):(\d+)", out):
        res["actions"][m.group(1)] = {"distinct": int(m.group(3)), "taken": int(m.group(4))}
    if "Model checking completed. No error has been found." in out:
        res["ok"] = True
        return res
    m = re.search(r"Invariant (\w+) is violated", out) or re.search(r"Action property (\w+) is violated", out) \
        or re.search(r"Temporal properties were violated", out) and re.search(r"(Temporal) properties were violated", out) \
        or re.search(r"property (\w+) was violated", out) \
        or re.search(r"Temporal properties were violated", out)
    if m:
        res["violated"] = m.group(1) if m.groups() else "temporal"
        return res
    if "Assumption" in out and "is false" in out:
        res["violated"] = "ASSUME"
        return res
    raise ToolError(f"TLC failed on {module}/{cfg}:\n" + out[-4000:])


def tlc_print(module, cfg, workdir, tag, timeout=1800, workers=1, xmx="4g", extra=()):
    """Run a generator module; return the JSON payloads of lines printed as <<"TAG", "json">>."""
    os.makedirs(workdir, exist_ok=True)
    md = os.path.join(workdir, "md_" + os.path.basename(cfg))
    env = {"JAVA_TOOL_OPTIONS": f"-Xss512m -Xmx{xmx}"}
    try:
        rc, out = sh_java(_tlc_cmd(module, cfg, workers, md, extra), cwd=SPEC, env=env, timeout=timeout)
    except subprocess.TimeoutExpired:
        raise ToolError(f"TLC timed out on generator {module}")
    shutil.rmtree(md, ignore_errors=True)
    items = []
    for m in re.finditer(r'<<"' + tag + r'", "(.*)">>', out):
        s = bytes(m.group(1), "utf-8").decode("unicode_escape")
        items.append(json.loads(s))
    if not items and "Error" in out:
        raise ToolError(f"generator {module} failed:\n" + out[-3000:])
    return items, parse_tlc_stats(out), out


# --------------------------------------------------------------------------- traces
def split_scenarios(lines, boundary='"e":"cfg"'):
    """Group trace lines into scenarios; a scenario starts at a boundary event."""
    groups = []
    for ln in lines:
        if boundary in ln or not groups:
            groups.append([])
        groups[-1].append(ln)
    return groups


def validate_trace(module, cfg, trace_path, workdir, max_rejects=25, boundary='"e":"cfg"', timeout=1800):
    """Validate a multi-scenario trace; a rejected scenario is cut out and the rest re-validated,
    so one rejection does not hide the remainder. Returns (stats, rejections)."""
    lines = [ln for ln in open(trace_path).read().split("\n") if ln.strip()]
    groups = split_scenarios(lines, boundary)
    rejections = []
    total_states = 0
    total_trans = 0
    validated = 0
    cur = groups
    rounds = 0
    while True:
        rounds += 1
        flat = [ln for g in cur for ln in g]
        if not flat:
            break
        p = os.path.join(workdir, f"validate_{rounds}.ndjson")
        with open(p, "w") as f:
            f.write("\n".join(flat) + "\n")
        r = tlc_trace(module, cfg, p, workdir, timeout=timeout)
        total_states += r["states"]
        total_trans += r["transitions"]
        if r["accepted"]:
            validated += len(cur)
            os.remove(p)
            break
        # locate the scenario holding the first unmatched line
        ln_no = r["reject_line"] or 1
        acc = 0
        idx = 0
        for i, g in enumerate(cur):
            if acc + len(g) >= ln_no:
                idx = i
                break
            acc += len(g)
        else:
            idx = len(cur) - 1
        g = cur[idx]
        off = max(0, min(len(g) - 1, ln_no - acc - 1))
        rejections.append({
            "scenario_head": json.loads(g[0]),
            "line_in_scenario": off + 1,
            "unmatched_event": json.loads(g[off]) if off < len(g) else None,
            "matched_prefix_tail": [json.loads(x) for x in g[max(0, off - 6):off]],
            "spec_state": r["reject_info"],
            "invariant": r["invariant"],
            "scenario_trace": g,
        })
        validated += idx
        cur = cur[idx + 1:]
        os.remove(p)
        if len(rejections) >= max_rejects:
            break
    stats = {"scenarios": len(groups), "scenarios_validated": validated, "events": len(lines),
             "states": total_states, "transitions": total_trans, "rounds": rounds}
    return stats, rejections


# --------------------------------------------------------------------------- findings / evidence
def load_known():
    p = os.path.join(ROOT, "known_findings.json")
    if not os.path.exists(p):
        return []
    return json.load(open(p)).get("findings", [])


def sha(s):
    return hashlib.sha1(s.encode()).hexdigest()[:12]


class Result:
    """Accumulates what one check run covered and found."""

    def __init__(self, pid, tier, seed, level="model_checking"):
        self.pid, self.tier, self.seed, self.level = pid, tier, seed, level
        self.t0 = time.time()
        self.states = 0
        self.transitions = 0
        self.traces = 0
        self.evaluations = 0
        self.distinct = set()
        self.samples = []
        self.violations = []       # (text, replay_path)
        self.known_hits = []
        self.stages = []
        self.assumptions = []
        self.extra = {}

    def add_mc(self, name, r):
        self.states += r["stats"]["distinct"]
        self.transitions += r["stats"]["states_generated"]
        unused = sorted(a for a, v in r.get("actions", {}).items() if v["taken"] == 0)
        self.stages.append({"stage": name, "kind": "tlc-exhaustive", "distinct_states": r["stats"]["distinct"],
                            "states_generated": r["stats"]["states_generated"], "depth": r["stats"]["depth"],
                            "wall_s": r["wall_s"], "ok": r["ok"], "violated": r["violated"],
                            "actions_never_taken": unused})

    def add_trace_stats(self, name, stats, extra=None):
        self.states += stats["states"]
        self.transitions += stats["transitions"]
        self.traces += stats["scenarios_validated"]
        d = {"stage": name, "kind": "trace-validation"}
        d.update(stats)
        if extra:
            d.update(extra)
        self.stages.append(d)

    def violation(self, text, replay_obj):
        os.makedirs(REPLAY_DIR, exist_ok=True)
        body = json.dumps(replay_obj, sort_keys=True)
        path = os.path.join(REPLAY_DIR, f"{self.pid}-{sha(body)}.json")
        with open(path, "w") as f:
            f.write(json.dumps(replay_obj, indent=1))
        self.violations.append((text, path))

    def known(self, fid, text):
        if (fid, text) not in self.known_hits:
            self.known_hits.append((fid, text))

    def finish(self, rule="", explanation=""):
        wall = round(time.time() - self.t0, 1)
        cov = {
            "states": max(self.states, 0),
            "transitions": max(self.transitions, 0),
            "traces_validated_against_impl": self.traces,
            "samples": self.samples[:8] if self.samples else ["(no sample recorded)"],
            "evaluations": max(self.evaluations, 1),
            "distinct_nontrivial": len(self.distinct),
            "rule": rule,
            "stages": self.stages,
            "known_finding_hits": [f"{a}: {b}" for a, b in self.known_hits],
        }
        if explanation:
            cov["explanation"] = explanation
        cov.update(self.extra)
        ev = {"property_id": self.pid, "tier": self.tier, "seed": self.seed, "level": self.level,
              "coverage": cov, "assumptions": self.assumptions, "wall_s": wall,
              "violations": len(self.violations)}
        os.makedirs(EVID, exist_ok=True)
        with open(os.path.join(EVID, f"{self.pid}.json"), "w") as f:
            json.dump(ev, f)
            f.write("\n")
        for fid, text in self.known_hits:
            print(f"KNOWN-FINDING: property={self.pid} {fid} {text}")
        for text, path in self.violations:
            print(f"VIOLATION property={self.pid} replay={path}")
            print(f"  detail: {text}")
        print(f"[{self.pid}] tier={self.tier} seed={self.seed} states={self.states} "
              f"traces={self.traces} evaluations={self.evaluations} violations={len(self.violations)} "
              f"known={len(self.known_hits)} wall={wall}s")
        return 1 if self.violations else 0


# --------------------------------------------------------------------------- design-level runs
def write_cfg(path, spec, constants, invariants=(), properties=(), extra=()):
    with open(path, "w") as f:
        f.write(f"SPECIFICATION {spec}\nCONSTANTS\n")
        for k, v in constants.items():
            f.write(f"  {k} {v}\n" if str(v).startswith("<-") else f"  {k} = {v}\n")
        for i in invariants:
            f.write(f"INVARIANT {i}\n")
        for p in properties:
            f.write(f"PROPERTY {p}\n")
        for e in extra:
            f.write(e + "\n")
        f.write("CHECK_DEADLOCK FALSE\n")


def proof_run(res, name, module, timeout=600):
    """Re-check a TLAPS proof (spec/proofs/<module>.tla) from scratch. The proof is about the specification only, so a
    failure here is reported in the evidence (stage not ok) but is not a violation of the code; the bounded TLC runs and
    the trace validation decide the property either way."""
    import re
    import shutil
    wd = os.path.join(WORK, f"proof-{name}-{os.getpid()}")
    shutil.rmtree(wd, ignore_errors=True)
    os.makedirs(wd)
    shutil.copy(os.path.join(SPEC, "proofs", module), wd)
    t0 = time.time()
    try:
        rc, out = sh(["tlapm", "--threads", "4", "--cleanfp", module], cwd=wd, timeout=timeout)
    except Exception as e:           # tool missing / timeout
        rc, out = 99, str(e)
    m = re.search(r"All (\d+) obligations? proved", out)
    stage = {"stage": name, "kind": "tlaps-proof", "module": "proofs/" + module, "ok": bool(m) and rc == 0,
             "obligations_proved": int(m.group(1)) if m else 0, "wall_s": round(time.time() - t0, 1)}
    if not stage["ok"]:
        stage["tool_output_tail"] = out[-600:]
    res.stages.append(stage)
    shutil.rmtree(wd, ignore_errors=True)
    return stage


def design_run(res, pid, name, module, spec, constants, invariants=(), properties=(), expect_violation=None,
               workers=10, timeout=3600, xmx="12g", workdir=None):
    """Exhaustive TLC run of a design-level model. A violated property is a VIOLATION of `pid`
    (the design itself admits a bad state); a negative control that is NOT refuted is a tool error."""
    wd = workdir or os.path.join(WORK, f"design-{pid}-{os.getpid()}")
    os.makedirs(wd, exist_ok=True)
    cfg = os.path.join(wd, f"{name}.cfg")
    write_cfg(cfg, spec, constants, invariants, properties)
    r = tlc_mc(module, cfg, wd, workers=workers, timeout=timeout, xmx=xmx, coverage=False)
    res.add_mc(name, r)
    os.remove(cfg)
    if expect_violation:
        if r["ok"] or not r["violated"]:
            raise ToolError(f"negative control {name} was not refuted by TLC (vacuity guard)")
        res.stages[-1]["negative_control_refuted"] = r["violated"]
        return r
    if not r["ok"]:
        tail = r["out"][r["out"].find("Error:"):][:6000]
        res.violation(f"design model {module} ({name}) violates {r['violated']}",
                      {"property": pid, "engine": "tlc-design", "module": module, "spec": spec, "constants": constants,
                       "invariants": list(invariants), "properties": list(properties), "violated": r["violated"],
                       "counterexample": tail})
    return r
