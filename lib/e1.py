"""Engine E1: server session.  Input generators + runner (harness) + TLC trace validation."""
import json
import os
import random

import vf
from mb import *

MODULE = "ServerSessionTrace.tla"
CFG = "ServerSessionTrace.cfg"

KNOWN = [1, 2, 3, 4, 5, 6, 15, 16]
UNKNOWN_FCS = [0, 7, 8, 11, 12, 17, 20, 21, 22, 23, 24, 43, 0x41, 0x64, 0x7F, 0x80, 0x81, 0x83, 0x85,
               0x8F, 0x90, 0xFF]
DECODES = [[a, f, p] for a in range(4) for f in range(3) for p in range(3)]


def scenario(sid, framing, units, steps, auth=None, decode=(0, 0, 0), seed=0, holes=(), tag=""):
    return {"id": sid, "framing": framing, "units": list(units), "auth": auth, "decode": list(decode),
            "seed": seed, "holes": list(holes), "steps": steps, "tag": tag}


def rx(b):
    return {"op": "rx", "bytes": list(b)}


# ------------------------------------------------------------------ request classes
def starts_for(c):
    s = {0, 1, 65535 - c, 65536 - c, 65537 - c, 65535, 32768}
    return sorted(x for x in s if 0 <= x <= 65535)


def read_lattice(fc):
    counts = [0, 1, 2, 7, 8, 9, 15, 16, 17, 1999, 2000, 2001, 2040, 2041, 65535] if fc in (1, 2) else \
        [0, 1, 2, 3, 124, 125, 126, 127, 128, 255, 256, 65535]
    out = []
    for c in counts:
        for s in starts_for(c):
            out.append((req_read(fc, s, c), f"fc{fc} s={s} c={c}"))
    return out


def length_variants(pdu):
    """truncations and extensions of a fixed-size request"""
    out = []
    for n in (0, 1, 2, 3, 4):
        out.append((pdu[:1 + n], f"body={n}"))
    out.append((pdu + [0], "body+1"))
    out.append((pdu + [0, 0], "body+2"))
    out.append((pdu + [7] * (253 - len(pdu)), "body=max"))
    return out


def write_single_lattice():
    out = []
    for idx in (0, 1, 255, 256, 65534, 65535):
        for raw in (0x0000, 0xFF00, 0x00FF, 0xFF01, 0x0001, 0x1234, 0xFFFF):
            out.append((req_wsc(idx, False, raw=raw), f"wsc idx={idx} raw={raw:#06x}"))
        for v in (0, 1, 0x1234, 0xFFFF):
            out.append((req_wsr(idx, v), f"wsr idx={idx} v={v}"))
    return out


def wmc_lattice(rng):
    out = []
    for c in (0, 1, 7, 8, 9, 16, 17, 1967, 1968, 1969, 1975, 1976):
        for s in starts_for(c)[:6]:
            bits = [rng.random() < 0.5 for _ in range(c)]
            out.append((req_wmc(s, bits), f"wmc s={s} c={c}"))
    # length / byte count lies
    for c in (1, 8, 9, 100):
        bits = [True] * c
        good = req_wmc(10, bits)
        out.append((good[:-1], f"wmc c={c} data-1"))
        out.append((good + [0], f"wmc c={c} data+1"))
        out.append((req_wmc(10, bits, bytecount=0), f"wmc c={c} bytecount=0"))
        out.append((req_wmc(10, bits, bytecount=255), f"wmc c={c} bytecount=255"))
        # more data than the quantity needs, with a byte-count field that agrees with the data (self-consistent lie)
        for extra in (1, 2):
            g = req_wmc(10, bits)
            out.append((g[:5] + [(g[5] + extra) & 255] + g[6:] + [0xFF] * extra, f"wmc c={c} bytecount and data +{extra}"))
        out.append((req_wmc(10, bits, count=c + 8), f"wmc count field +8"))
        out.append((req_wmc(10, bits, count=0), f"wmc count field 0"))
    out.append(([15, 0, 0, 0, 1], "wmc no bytecount"))
    return out


def wmr_lattice(rng):
    out = []
    for c in (0, 1, 2, 3, 122, 123):
        for s in starts_for(c)[:6]:
            regs = [rng.randrange(65536) for _ in range(c)]
            out.append((req_wmr(s, regs), f"wmr s={s} c={c}"))
    for c in (1, 2, 50):
        regs = [0xABCD] * c
        good = req_wmr(20, regs)
        out.append((good[:-1], f"wmr c={c} data-1"))
        out.append((good + [0], f"wmr c={c} data+1"))
        out.append((req_wmr(20, regs, bytecount=0), f"wmr c={c} bytecount=0"))
        for extra in (1, 2, 4):
            g = req_wmr(20, regs)
            out.append((g[:5] + [(g[5] + extra) & 255] + g[6:] + [0x12, 0x34, 0x56, 0x78][:extra], f"wmr c={c} bytecount and data +{extra}"))
        out.append((req_wmr(20, regs, count=c + 1), f"wmr count field +1"))
        out.append((req_wmr(20, regs, count=0), f"wmr count field 0"))
    out.append(([16, 0, 0, 0, 1], "wmr no bytecount"))
    return out


def unknown_lattice():
    out = []
    for fc in UNKNOWN_FCS:
        for body in ([], [0], [0, 1, 0, 1], [9] * 252):
            out.append(([fc] + body, f"fc={fc} body={len(body)}"))
    return out


def full_lattice(rng):
    """the request class lattice (PDUs), every entry tagged"""
    out = []
    for fc in (1, 2, 3, 4):
        out += read_lattice(fc)
        out += [(p, f"fc{fc} " + n) for p, n in length_variants(req_read(fc, 3, 2))]
    out += write_single_lattice()
    out += [(p, "wsc " + n) for p, n in length_variants(req_wsc(3, True))]
    out += [(p, "wsr " + n) for p, n in length_variants(req_wsr(3, 9))]
    out += wmc_lattice(rng)
    out += wmr_lattice(rng)
    out += unknown_lattice()
    out.append(([], "empty pdu"))
    return out


def rtu_delimitable(pdu):
    """can the RTU length table delimit this request exactly as sent?"""
    if not pdu or pdu[0] not in KNOWN:
        return False
    if pdu[0] in (15, 16):
        return len(pdu) >= 6 and len(pdu) == 6 + pdu[5]
    return len(pdu) == 5


def holes_for(rng, units, pdus, density=0.5):
    """place handler exceptions at the first / middle / last address of some requests"""
    holes = {}
    for pdu in pdus:
        if len(pdu) < 5 or pdu[0] not in KNOWN or rng.random() > density:
            continue
        fc = pdu[0]
        s = (pdu[1] << 8) | pdu[2]
        c = ((pdu[3] << 8) | pdu[4]) if fc not in (5, 6) else 1
        if c == 0 or s + c > 65536 or c > 2100:
            continue
        t = {1: 0, 5: 0, 15: 0, 2: 1, 3: 2, 6: 2, 16: 2, 4: 3}[fc]
        a = rng.choice([s, s + c // 2, s + c - 1])
        u = rng.choice(units) if units else 1
        code = rng.choice([1, 2, 3, 4, 5, 6, 8, 10, 11, 0, 7, 9, 200, 255]) or 2
        holes[(u, t, a)] = code
    return [{"u": u, "t": t, "a": a, "code": c} for (u, t, a), c in holes.items()]


UNIT_SETS = [[1], [1, 2], [3, 17, 200], [255], [0, 5], [], [247, 248]]


def pick_unit(rng, units, framing, p_other=0.15):
    if rng.random() < p_other or not units:
        return rng.choice([0, 1, 2, 9, 99, 247, 248, 255])
    return rng.choice(units)


def gen_lattice_scenarios(rng, framing, per_scenario=25, sid0=0, limit=None, auth_modes=(None,)):
    lat = full_lattice(rng)
    if framing == "rtu":
        lat = [(p, n) for p, n in lat if rtu_delimitable(p)]
    rng.shuffle(lat)
    if limit:
        lat = lat[:limit]
    scs = []
    sid = sid0
    for i in range(0, len(lat), per_scenario):
        chunk = lat[i:i + per_scenario]
        units = rng.choice(UNIT_SETS[:5])
        steps = []
        tx = rng.randrange(65536)
        for pdu, note in chunk:
            u = pick_unit(rng, units, framing)
            steps.append(rx(frame(framing, tx, u, pdu)))
            tx = (tx + 1) % 65536
        auth = rng.choice(auth_modes)
        scs.append(scenario(sid, framing, units, steps, auth=auth, seed=rng.randrange(1000),
                            holes=holes_for(rng, units, [p for p, _ in chunk]), tag="lattice"))
        sid += 1
    return scs


# ------------------------------------------------------------------ random sequences
def random_valid_pdu(rng, small=True):
    fc = rng.choice(KNOWN)
    if fc in (1, 2):
        c = rng.choice([1, 2, 7, 8, 9, 16, 33, 100]) if small else rng.choice([1, 8, 500, 1999, 2000])
        s = rng.choice([0, 5, 100, 65536 - c, rng.randrange(0, 65536 - c)])
        return req_read(fc, s, c)
    if fc in (3, 4):
        c = rng.choice([1, 2, 3, 10, 50]) if small else rng.choice([1, 60, 124, 125])
        s = rng.choice([0, 5, 100, 65536 - c, rng.randrange(0, 65536 - c)])
        return req_read(fc, s, c)
    if fc == 5:
        return req_wsc(rng.choice([0, 5, 100, 65535, rng.randrange(65536)]), rng.random() < 0.5)
    if fc == 6:
        return req_wsr(rng.choice([0, 5, 100, 65535, rng.randrange(65536)]), rng.randrange(65536))
    if fc == 15:
        c = rng.choice([1, 3, 8, 9, 20, 64]) if small else rng.choice([1, 800, 1968])
        s = rng.choice([0, 5, 100, 65536 - c])
        return req_wmc(s, [rng.random() < 0.5 for _ in range(c)])
    c = rng.choice([1, 2, 5, 20]) if small else rng.choice([1, 100, 123])
    s = rng.choice([0, 5, 100, 65536 - c])
    return req_wmr(s, [rng.randrange(65536) for _ in range(c)])


def readback_of(pdu):
    """a read that covers what a write just wrote"""
    fc = pdu[0]
    s = (pdu[1] << 8) | pdu[2]
    if fc == 5:
        return req_read(1, s, 1)
    if fc == 6:
        return req_read(3, s, 1)
    c = (pdu[3] << 8) | pdu[4]
    if fc == 15:
        return req_read(1, max(0, s - 1), min(c + 2, 2000, 65536 - max(0, s - 1)))
    if fc == 16:
        return req_read(3, max(0, s - 1), min(c + 2, 125, 65536 - max(0, s - 1)))
    return None


def random_invalid_pdu(rng, lattice):
    return rng.choice(lattice)[0]


def chunk_random(rng, data, maxchunk=None):
    out = []
    i = 0
    while i < len(data):
        n = rng.choice([1, 2, 3, 5, 7, 8, 13, 64, 259, 260, 261, 600]) if maxchunk is None else rng.randint(1, maxchunk)
        out.append(data[i:i + n])
        i += n
    return out


def gen_random_sequences(rng, framing, n, sid0, lattice, auth_modes=(None,), small=True, frames=(1, 30),
                         decodes=((0, 0, 0),), p_invalid=0.3):
    scs = []
    for k in range(n):
        units = rng.choice(UNIT_SETS)
        nfr = rng.randint(*frames)
        pdus = []
        while len(pdus) < nfr:
            if rng.random() < p_invalid:
                p = random_invalid_pdu(rng, lattice)
                if framing == "rtu" and not rtu_delimitable(p):
                    continue
                pdus.append(p)
            else:
                p = random_valid_pdu(rng, small=small)
                pdus.append(p)
                if p[0] in (5, 6, 15, 16) and rng.random() < 0.6:
                    rb = readback_of(p)
                    if rb:
                        pdus.append(rb)
        tx = rng.randrange(65536)
        frames_b = []
        sticky_unit = rng.choice(units) if units else 1
        for p in pdus:
            u = sticky_unit if rng.random() < 0.7 else pick_unit(rng, units, framing, 0.3)
            frames_b.append(frame(framing, tx, u, p))
            tx = (tx + 1) % 65536
        mode = rng.choice(["per-frame", "blast", "random", "bytes"]) if nfr <= 12 else rng.choice(["per-frame", "blast", "random"])
        steps = []
        if mode == "per-frame":
            steps = [rx(f) for f in frames_b]
        else:
            data = [b for f in frames_b for b in f]
            if mode == "blast":
                steps = [rx(data)]
            elif mode == "bytes":
                steps = [rx([b]) for b in data[:600]] + ([rx(data[600:])] if len(data) > 600 else [])
            else:
                steps = [rx(c) for c in chunk_random(rng, data)]
        scs.append(scenario(sid0 + k, framing, units, steps, auth=rng.choice(auth_modes),
                            decode=rng.choice(decodes), seed=rng.randrange(1000),
                            holes=holes_for(rng, units, pdus, density=0.3), tag="random-" + mode))
    return scs


# ------------------------------------------------------------------ runner
def run_scripts(scs, workdir, name="e1"):
    os.makedirs(workdir, exist_ok=True)
    sp = os.path.join(workdir, f"{name}.scripts.ndjson")
    tp = os.path.join(workdir, f"{name}.trace.ndjson")
    with open(sp, "w") as f:
        for s in scs:
            f.write(json.dumps(s) + "\n")
    rc, out = vf.sh([vf.harness_bin("e1_session"), sp, tp], timeout=3600)
    if rc not in (0, 3):
        raise vf.ToolError(f"e1_session failed rc={rc}:\n{out[-3000:]}")
    return sp, tp, rc


def check_scripts(res, scs, workdir, name, describe=None):
    """run + validate; every rejected scenario becomes a violation with a replay file"""
    by_id = {s["id"]: s for s in scs}
    sp, tp, rc = run_scripts(scs, workdir, name)
    stats, rejs = vf.validate_trace(MODULE, CFG, tp, workdir)
    res.add_trace_stats(name, stats, {"harness_exit": rc})
    res.evaluations += len(scs)
    for s in scs:
        res.distinct.add(vf.sha(json.dumps(s["steps"])[:4000] + str(s["units"]) + s["framing"]))
    out = []
    for r in rejs:
        sid = r["scenario_head"].get("id")
        sc = by_id.get(sid)
        out.append((sc, r))
    if rc == 3 and not rejs:
        raise vf.ToolError("harness watchdog fired but the trace validated")
    return out


def describe_rejection(sc, r):
    ev = r["unmatched_event"]
    st = r["spec_state"]
    exp = st.get("exp") if isinstance(st, dict) else st
    return (f"scenario {sc['id'] if sc else '?'} ({sc.get('tag') if sc else ''}, {sc['framing'] if sc else ''}, "
            f"units={sc['units'] if sc else ''}): at event #{r['line_in_scenario']} the implementation did "
            f"{json.dumps(ev)[:300]} but the specification prescribes {str(exp)[:300]}"
            + (f" [invariant {r['invariant']}]" if r.get("invariant") else ""))


def replay_obj(pid, sc, r):
    return {"property": pid, "engine": "e1", "scenario": sc,
            "rejection": {k: r[k] for k in ("line_in_scenario", "unmatched_event", "spec_state", "invariant",
                                            "matched_prefix_tail")},
            "trace": r["scenario_trace"]}


# ------------------------------------------------------------------ C05: chunkings, malformed headers
BAD_HEADERS = {
    "proto": lambda tx, u: [tx >> 8, tx & 255, 0, 1, 0, 6, u, 3, 0, 0, 0, 1],
    "proto-hi": lambda tx, u: [tx >> 8, tx & 255, 0x80, 0, 0, 6, u, 3, 0, 0, 0, 1],
    "len0": lambda tx, u: [tx >> 8, tx & 255, 0, 0, 0, 0, u, 3, 0, 0, 0, 1],
    "len255": lambda tx, u: [tx >> 8, tx & 255, 0, 0, 0, 255, u] + [3] * 254,
    "len256": lambda tx, u: [tx >> 8, tx & 255, 0, 0, 1, 0, u] + [3] * 255,
    "len65535": lambda tx, u: [tx >> 8, tx & 255, 0, 0, 255, 255, u] + [3] * 20,
}


def chunkings(rng, data, thorough=False):
    """systematic ways of splitting one stream into network reads"""
    n = len(data)
    out = [("all", [data]), ("bytes", [[b] for b in data])]
    for k in (259, 260, 261, 7, 6, 8):
        out.append((f"by{k}", [data[i:i + k] for i in range(0, n, k)]))
    # one split at every offset (only for short streams)
    if n <= 40 or thorough and n <= 120:
        for i in range(1, n):
            out.append((f"split@{i}", [data[:i], data[i:]]))
    for _ in range(6 if thorough else 2):
        out.append(("random", chunk_random(rng, data)))
        out.append(("random-small", chunk_random(rng, data, maxchunk=9)))
    # fill the receive buffer exactly, then trickle
    if n > 260:
        out.append(("260+bytes", [data[:260]] + [[b] for b in data[260:260 + 300]] + ([data[560:]] if n > 560 else [])))
        out.append(("253+7+rest", [data[:253], data[253:260], data[260:]]))
    return out


def gen_c05(rng, sid0, thorough=False):
    scs = []
    sid = sid0
    streams = []
    # pipelined valid frames totalling 1..4 buffer capacities, with frames straddling offset 260
    for total in ((200, 270, 520, 800, 1100) if thorough else (270, 540, 1000)):
        for variant in range(3 if thorough else 1):
            fr = []
            tx = rng.randrange(65536)
            size = 0
            while size < total:
                p = random_valid_pdu(rng, small=True)
                f = mbap(tx, 1, p)
                tx = (tx + 1) % 65536
                fr.append(f)
                size += len(f)
            streams.append(("pipelined", fr, None))
    # a max-size frame between small ones
    big = req_wmr(0, [rng.randrange(65536) for _ in range(123)])
    streams.append(("maxframe", [mbap(1, 1, req_read(3, 0, 2)), mbap(2, 1, big), mbap(3, 1, req_read(3, 0, 125)),
                                 mbap(4, 1, req_wmc(0, [True] * 1968)), mbap(5, 1, req_read(1, 0, 3))], None))
    # two short frames: every split offset
    streams.append(("two-frames", [mbap(7, 1, req_read(1, 0, 9)), mbap(8, 1, req_wsr(5, 0xBEEF))], None))
    # the smallest header that is not malformed: length 1 (unit id only, an empty PDU) -- never answered, and the frames
    # around it are delimited as usual wherever the reads end (in particular right after its seventh byte)
    empty = lambda tx, u: [tx >> 8, tx & 255, 0, 0, 0, 1, u]
    streams.append(("empty-pdu", [mbap(20, 1, req_read(3, 0, 2)), empty(21, 1), mbap(22, 1, req_wsr(9, 9)), empty(23, 1), empty(24, 2),
                                  mbap(25, 1, req_read(3, 9, 1))], None))
    streams.append(("empty-pdu-first", [empty(30, 1), mbap(31, 1, req_read(1, 0, 3))], None))
    # valid frames followed by each malformed header kind, followed by more valid frames (never processed)
    for kind, mk in BAD_HEADERS.items():
        pre = [mbap(10 + i, 1, random_valid_pdu(rng)) for i in range(rng.choice([0, 1, 3, 25]))]
        post = [mbap(90, 1, req_wsr(1, 1)), mbap(91, 1, req_read(3, 1, 1))]
        streams.append(("bad-" + kind, pre + [mk(0x1234, 1)] + post, kind))
    # the malformed header ALONE (its seven bytes, nothing that would belong to it) directly followed by valid frames: the
    # session ends there; what follows is not a new beginning
    for kind, hdr in (("proto", [0x12, 0x34, 0, 1, 0, 6, 1]), ("proto-hi", [0x12, 0x34, 0x80, 0, 0, 6, 1]), ("len0", [0x12, 0x34, 0, 0, 0, 0, 1]),
                      ("len255", [0x12, 0x34, 0, 0, 0, 255, 1]), ("len65535", [0x12, 0x34, 0, 0, 255, 255, 1])):
        for npre in (1, 3):
            pre = [mbap(10 + i, 1, random_valid_pdu(rng)) for i in range(npre)]
            post = [mbap(90, 1, req_wsr(1, 1)), mbap(91, 1, req_read(3, 1, 1))]
            streams.append((f"bare-bad-{kind}-after{npre}", pre + [hdr] + post, kind))
    for name, frames_b, bad in streams:
        data = [b for f in frames_b for b in f]
        for cname, chunks in chunkings(rng, data, thorough):
            if cname == "bytes" and len(data) > 700:
                continue
            scs.append(scenario(sid, "tcp", [1], [rx(c) for c in chunks], seed=5,
                                holes=[{"u": 1, "t": 2, "a": 100, "code": 4}], tag=f"c05-{name}-{cname}"))
            sid += 1
    return scs


# ------------------------------------------------------------------ C06: CRC corruptions (RTU)
def flip_bits(frame_b, bits):
    f = list(frame_b)
    for b in bits:
        f[b // 8] ^= 1 << (b % 8)
    return f


def rtu_base_frames(rng):
    return [
        ("rc", rtu(1, req_read(1, 16, 19))),
        ("rhr", rtu(1, req_read(3, 0, 125))),
        ("wsc", rtu(1, req_wsc(3, True))),
        ("wsr", rtu(2, req_wsr(65535, 0xA5A5))),
        ("wmc-small", rtu(1, req_wmc(7, [True, False, True, True, False, False, True, False, True, True]))),
        ("wmr-small", rtu(1, req_wmr(2, [0x1234, 0xFFFF]))),
        ("wmr-max", rtu(1, req_wmr(0, [rng.randrange(65536) for _ in range(123)]))),
        ("wmc-max", rtu(2, req_wmc(0, [rng.random() < 0.5 for _ in range(1968)]))),
        ("bcast-wsr", rtu(0, req_wsr(9, 77))),
    ]


def gen_c06(rng, sid0, thorough=False):
    scs = []
    sid = sid0
    sentinel = rtu(1, req_read(3, 40, 2))

    def add(name, corrupt, chunked=None):
        nonlocal sid
        steps = [rx(c) for c in chunked] if chunked else [rx(corrupt)]
        steps += [{"op": "reopen"}, rx(sentinel)]
        scs.append(scenario(sid, "rtu", [1, 2], steps, seed=11, tag="c06-" + name))
        sid += 1

    for name, f in rtu_base_frames(rng):
        nbits = len(f) * 8
        short = len(f) <= 16
        # every single-bit error
        singles = range(nbits) if (short or thorough) else sorted(rng.sample(range(nbits), 160))
        for b in singles:
            add(f"{name}-1bit@{b}", flip_bits(f, [b]))
        # double-bit errors
        if short and thorough:
            pairs = [(a, b) for a in range(nbits) for b in range(a + 1, nbits)]
        else:
            pairs = [tuple(sorted(rng.sample(range(nbits), 2))) for _ in range(600 if thorough else 60)]
        for a, b in pairs:
            add(f"{name}-2bit@{a},{b}", flip_bits(f, [a, b]))
        # bursts: a window of 2..16 bits whose first and last bit are flipped, random inside
        nb = 400 if thorough else 40
        for _ in range(nb):
            ln = rng.randint(2, 16)
            st = rng.randrange(0, nbits - ln + 1)
            inner = [st + i for i in range(1, ln - 1) if rng.random() < 0.5]
            add(f"{name}-burst{ln}@{st}", flip_bits(f, [st, st + ln - 1] + inner))
        # same corrupted frame under byte-per-byte and random chunkings
        for _ in range(6 if thorough else 2):
            c = flip_bits(f, [rng.randrange(nbits)])
            add(f"{name}-1bit-bytes", c, chunked=[[x] for x in c])
            add(f"{name}-1bit-rand", c, chunked=chunk_random(rng, c, maxchunk=9))
        # the two CRC bytes exchanged (a burst inside the last 16 bits; a 2-bit error when they differ in one bit)
        add(f"{name}-crc-bytes-swapped", f[:-2] + [f[-1], f[-2]])
        # the good frame cut in two at every offset (short frames) -- the length is derived identically
        if short:
            for cut in range(1, len(f)):
                add(f"{name}-good-split@{cut}", f, chunked=[f[:cut], f[cut:]])
        # the good frame, several chunkings (length derivation is chunking independent)
        add(f"{name}-good", f)
        add(f"{name}-good-bytes", f, chunked=[[x] for x in f])
        add(f"{name}-good-rand", f, chunked=chunk_random(rng, f, maxchunk=5))
    # damage in the byte-count field of the variable-length requests (the derived length becomes too long, barely
    # legal, or short), followed by as many re-opens of the port as the RTU server task would make while it works
    # through what its reader kept; the frames after that must be delimited from their own bytes again
    for unit in (1, 0x11, 2):
        for name, pdu in (("wmr", req_wmr(2, [0x1234, 0xFFFF])), ("wmc", req_wmc(7, [True, False, True, True, False, False, True, False, True, True]))):
            for bc in (0xF7, 0xF8, 0xFB, 0xFF, 0x00, pdu[5] + 1):
                bad = list(pdu)
                bad[5] = bc
                f = rtu(unit, bad)
                steps = [rx(f)] + [{"op": "reopen"}] * (len(f) + 3)
                steps += [rx(rtu(1, req_read(3, 40, 2))), rx(rtu(2, req_wsr(3, 9))), rx(rtu(2, req_read(3, 3, 1)))]
                scs.append(scenario(sid, "rtu", [1, 2], steps, seed=11, tag=f"c06-bytecount-{name}-{bc:#x}-unit{unit}-reopen*"))
                sid += 1
    return scs


# ------------------------------------------------------------------ C07: hostile input
def mutate(rng, data):
    d = list(data)
    if not d:
        return [rng.randrange(256)]
    k = rng.choice(["flip", "set", "trunc", "dup", "insert", "lenlie", "splice", "boundary"])
    i = rng.randrange(len(d))
    if k == "flip":
        d[i] ^= 1 << rng.randrange(8)
    elif k == "set":
        d[i] = rng.choice([0, 1, 0x7F, 0x80, 0xFE, 0xFF])
    elif k == "trunc":
        d = d[:i]
    elif k == "dup":
        d = d[:i] + d[i:i + rng.randint(1, 8)] * 2 + d[i:]
    elif k == "insert":
        d = d[:i] + [rng.randrange(256) for _ in range(rng.randint(1, 300))] + d[i:]
    elif k == "lenlie" and len(d) > 6:
        d[4], d[5] = rng.choice([(0, 0), (0, 1), (0, 254), (0, 255), (1, 0), (255, 255)])
    elif k == "splice":
        j = rng.randrange(len(d))
        d = d[:i] + d[j:]
    else:
        for j in range(min(len(d), 4)):
            d[(i + j) % len(d)] = 0xFF
    return d


def gen_c07(rng, sid0, n, decodes):
    scs = []
    lat = full_lattice(rng)
    for k in range(n):
        framing = rng.choice(["tcp", "rtu"])
        units = rng.choice(UNIT_SETS)
        kind = rng.choice(["random-bytes", "mutated", "mutated", "lattice-mix", "edge-addresses"])
        steps = []
        tx = rng.randrange(65536)
        if kind == "random-bytes":
            data = [rng.randrange(256) for _ in range(rng.choice([1, 5, 8, 60, 300, 900]))]
            steps = [rx(c) for c in chunk_random(rng, data)]
        elif kind == "edge-addresses":
            for _ in range(rng.randint(1, 10)):
                fc = rng.choice(KNOWN)
                c = rng.choice([1, 2, 125, 2000, 1968, 123])
                s = rng.choice([65535, 65534, 65536 - c if c <= 65536 else 0, 65535 - c])
                s = max(0, min(65535, s))
                if fc in (1, 2, 3, 4):
                    p = req_read(fc, s, c)
                elif fc == 5:
                    p = req_wsc(s, True)
                elif fc == 6:
                    p = req_wsr(s, 0xFFFF)
                elif fc == 15:
                    p = req_wmc(s, [True] * min(c, 1968))
                else:
                    p = req_wmr(s, [0xFFFF] * min(c, 123))
                steps.append(rx(frame(framing, tx, pick_unit(rng, units, framing), p)))
                tx = (tx + 1) % 65536
        else:
            for _ in range(rng.randint(1, 12)):
                p = random_valid_pdu(rng) if rng.random() < 0.6 else random_invalid_pdu(rng, lat)
                f = frame(framing, tx, pick_unit(rng, units, framing), p)
                tx = (tx + 1) % 65536
                if kind == "mutated" and rng.random() < 0.5:
                    for _ in range(rng.randint(1, 3)):
                        f = mutate(rng, f)
                if f:
                    steps.append(rx(f))
            if rng.random() < 0.5:
                data = [b for s in steps for b in s["bytes"]]
                steps = [rx(c) for c in chunk_random(rng, data)]
        # once the session has ended (bad frame), an RTU server re-opens; a sentinel exchange follows
        if framing == "rtu":
            steps += [{"op": "reopen"}]
        u = units[0] if units else 1
        steps.append(rx(frame(framing, 0x4242, u, req_read(3, 7, 2))))
        if rng.random() < 0.3:
            steps.insert(rng.randrange(len(steps)), {"op": "decode", "level": rng.choice(DECODES)})
        auth = rng.choice([None, None, {"policy": "hash", "seed": rng.randrange(9), "role": "r"}])
        scs.append(scenario(sid0 + k, framing, units, steps, auth=auth, decode=rng.choice(decodes),
                            seed=rng.randrange(1000), holes=[{"u": u, "t": 2, "a": 8, "code": 4}] if rng.random() < 0.3 else [],
                            tag="c07-" + kind))
    # the RTU length boundary: write requests whose byte count puts the frame at, just below and beyond the largest frame
    for bc in (0xF6, 0xF7, 0xF8, 0xF9, 0xFA, 0xFB, 0xFF):
        for fc in (15, 16):
            body = [1, fc, 0, 0, 0, 1, bc] + [rng.randrange(256) for _ in range(bc + 2)]
            steps = [rx(body), {"op": "reopen"}, rx(rtu(1, req_read(3, 0, 1)))]
            scs.append(scenario(sid0 + len(scs), "rtu", [1, 2], steps, seed=3, decode=rng.choice(decodes), tag=f"c07-rtu-length-boundary-fc{fc}-{bc:#x}"))
    # a flooding peer and a shutdown at the same instant (both framings, several levels): honoured while input is pending
    for framing in ("tcp", "rtu"):
        for k in range(3):
            data = []
            for i in range(400):
                data += frame(framing, i, 1, req_read(3, i % 50, 1 + i % 3))
            steps = [rx(frame(framing, 9, 1, req_read(3, 0, 1))), {"op": "rx_race_shutdown", "bytes": data}]
            scs.append(scenario(sid0 + len(scs), framing, [1, 2], steps, seed=3, decode=rng.choice(decodes), tag=f"c07-flood-and-shutdown-{framing}"))
    return scs


# ------------------------------------------------------------------ C08: authorization
ROLES = ["", "operator", "viewer", "role with spaces", "x" * 200, "rôle-üñï"]


def gen_c08(rng, sid0, thorough=False):
    scs = []
    sid = sid0
    kinds = [lambda: req_read(1, rng.randrange(100), rng.randint(1, 20)),
             lambda: req_read(2, rng.randrange(100), rng.randint(1, 20)),
             lambda: req_read(3, rng.randrange(100), rng.randint(1, 20)),
             lambda: req_read(4, rng.randrange(100), rng.randint(1, 20)),
             lambda: req_wsc(rng.randrange(100), rng.random() < 0.5),
             lambda: req_wsr(rng.randrange(100), rng.randrange(65536)),
             lambda: req_wmc(rng.randrange(100), [rng.random() < 0.5 for _ in range(rng.randint(1, 20))]),
             lambda: req_wmr(rng.randrange(100), [rng.randrange(65536) for _ in range(rng.randint(1, 10))])]
    # the grid: 8 kinds x {allow, deny, readonly} x {configured, unconfigured unit} x roles, both framings
    for framing in ("tcp", "rtu"):
        for policy in ("allow", "deny", "readonly"):
            for role in ROLES:
                steps = []
                tx = 1
                for mk in kinds:
                    for unit in (1, 9) + ((0,) if framing == "rtu" else ()):
                        p = mk()
                        steps.append(rx(frame(framing, tx, unit, p)))
                        if p[0] in (5, 6, 15, 16):
                            steps.append(rx(frame(framing, tx + 1, 1, readback_of(p))))
                        tx += 2
                scs.append(scenario(sid, framing, [1, 2], steps, auth={"policy": policy, "seed": 0, "role": role},
                                    seed=rng.randrange(100), tag=f"c08-grid-{policy}"))
                sid += 1
    # the same request repeated: to the same unit, to other units, after other requests -- the decision is
    # taken per request with the unit id of that request, an earlier allow never carries over
    for k in range(400 if thorough else 12):
        framing = rng.choice(["tcp", "rtu"])
        units = [1, 2, 3]
        steps = []
        tx = 1
        for _ in range(6):
            p = rng.choice(kinds)()
            for u in rng.sample([1, 2, 3, 9], 4) + [rng.choice([1, 2, 3])]:
                steps.append(rx(frame(framing, tx, u, p)))
                tx += 1
                if rng.random() < 0.3:
                    steps.append(rx(frame(framing, tx, u, rng.choice(kinds)())))
                    tx += 1
        scs.append(scenario(sid, framing, units, steps,
                            auth={"policy": "hash", "seed": rng.randrange(1000), "role": "operator"},
                            seed=rng.randrange(100), tag="c08-repeat-same-request"))
        sid += 1
    # random per-request policies: the decision varies with kind, unit, range -> an earlier allow
    # must not carry over; invalid requests in between are never shown to the handler
    lat = full_lattice(rng)
    for k in range(3000 if thorough else 50):
        framing = rng.choice(["tcp", "rtu"])
        units = rng.choice([[1], [1, 2], [3, 17, 200]])
        steps = []
        tx = rng.randrange(60000)
        for _ in range(rng.randint(5, 40)):
            r = rng.random()
            if r < 0.15:
                p = random_invalid_pdu(rng, lat)
                if framing == "rtu" and not rtu_delimitable(p):
                    continue
            else:
                p = rng.choice(kinds)()
            u = pick_unit(rng, units, framing, 0.2)
            steps.append(rx(frame(framing, tx, u, p)))
            tx += 1
            if r >= 0.15 and p[0] in (5, 6, 15, 16) and rng.random() < 0.5:
                steps.append(rx(frame(framing, tx, u, readback_of(p))))
                tx += 1
        if rng.random() < 0.4:
            data = [b for s in steps for b in s["bytes"]]
            steps = [rx(c) for c in chunk_random(rng, data)]
        scs.append(scenario(sid, framing, units, steps,
                            auth={"policy": "hash", "seed": rng.randrange(1000), "role": rng.choice(ROLES)},
                            seed=rng.randrange(100), holes=[{"u": units[0], "t": 2, "a": 50, "code": 4}, {"u": units[0], "t": 0, "a": 60, "code": 2}],
                            tag="c08-hash"))
        sid += 1
    return scs


# ------------------------------------------------------------------ C17: multi-drop discipline
def gen_c17(rng, sid0, thorough=False):
    scs = []
    sid = sid0
    unit_ids = list(range(256)) if thorough else sorted(set([0, 1, 2, 3, 17, 200, 246, 247, 248, 254, 255] +
                                                           [rng.randrange(256) for _ in range(8)]))
    maps = [[], [1], [1, 2], [3, 17, 200], [0, 5], [255]]
    lat = full_lattice(rng)
    invalid = [p for p, n in lat if p and p[0] in KNOWN]
    for framing in ("rtu", "tcp"):
        for units in maps:
            steps = []
            tx = 100
            for u in unit_ids:
                cands = [req_read(rng.choice([1, 2, 3, 4]), 5, 3),                    # valid read
                         req_wsr(6, u * 3 + 1),                                         # valid write
                         req_wmc(4, [True, False, True]),
                         req_read(3, 98, 5),                                            # fails in the handler
                         req_wsc(99, True),                                             # write failing in the handler
                         req_read(1, 0, 2001),                                          # over limit
                         req_wsc(1, True, raw=0x1234),                                  # malformed
                         [0x2B, 0x0E, 1, 0]]                                            # unknown function
                for p in rng.sample(cands, 4 if not thorough else len(cands)):
                    if framing == "rtu" and not rtu_delimitable(p):
                        continue
                    steps.append(rx(frame(framing, tx, u, p)))
                    tx = (tx + 1) % 65536
            # read back what broadcast / addressed writes left behind, on every configured unit
            for u in units:
                if not (framing == "rtu" and u == 0):
                    steps.append(rx(frame(framing, tx, u, req_read(3, 4, 4))))
                    steps.append(rx(frame(framing, tx + 1, u, req_read(1, 3, 5))))
                    tx += 2
            holes = [{"u": u, "t": 2, "a": 100, "code": 4} for u in units] + [{"u": u, "t": 0, "a": 99, "code": 2} for u in units]
            scs.append(scenario(sid, framing, units, steps, seed=rng.randrange(100), holes=holes,
                                tag=f"c17-{framing}-units{len(units)}"))
            sid += 1
    # a broadcast write arriving while the application holds one unit's handler (it is working on its data): the write is
    # applied to EVERY unit all the same -- it waits for the handler, it does not skip it
    for units in ([1, 2], [3, 17, 200]):
        for held in units:
            w = req_wsr(rng.randrange(50), rng.randrange(65536))
            steps = [{"op": "hold_handler", "unit": held, "ms": 60}, rx(rtu(0, w))]
            for u in units:
                steps.append(rx(rtu(u, readback_of(w))))
            scs.append(scenario(sid, "rtu", units, steps, seed=rng.randrange(100), tag=f"c17-broadcast-while-unit{held}-handler-is-held"))
            sid += 1
    # sequences mixing broadcast writes with addressed traffic under random chunking
    for k in range(60 if thorough else 12):
        units = rng.choice(maps[1:5])
        steps = []
        for _ in range(rng.randint(3, 25)):
            u = rng.choice([0, 0, rng.choice(units), 9, 255])
            p = rng.choice([random_valid_pdu(rng), rng.choice(invalid)])
            if not rtu_delimitable(p):
                continue
            steps.append(rx(rtu(u, p)))
        data = [b for s in steps for b in s["bytes"]]
        if rng.random() < 0.5:
            steps = [rx(c) for c in chunk_random(rng, data)]
        scs.append(scenario(sid, "rtu", units, steps, seed=rng.randrange(100),
                            auth=rng.choice([None, None, {"policy": "hash", "seed": 3, "role": "x"}]),
                            holes=holes_for(rng, units, [s["bytes"][1:-2] for s in steps], 0.2), tag="c17-bcast-seq"))
        sid += 1
    return scs


# ------------------------------------------------------------------ C20: decode levels
def with_decode_variants(rng, scs, sid0, positions=2, all_levels=False):
    """every script at the lowest and the highest level (or all 36) and with level changes injected"""
    out = []
    sid = sid0
    levels = DECODES if all_levels else [[0, 0, 0], [3, 2, 2]]
    for sc in scs:
        for lv in levels:
            c = dict(sc)
            c["id"] = sid
            c["decode"] = lv
            c["tag"] = sc["tag"] + f"+dec{lv}"
            out.append(c)
            sid += 1
        n = len(sc["steps"])
        pos = range(n + 1) if positions is None else sorted(set(rng.randrange(n + 1) for _ in range(positions)))
        for p in pos:
            c = dict(sc)
            c["id"] = sid
            c["decode"] = rng.choice(DECODES)
            c["steps"] = sc["steps"][:p] + [{"op": "decode", "level": rng.choice(DECODES)}] + sc["steps"][p:]
            c["tag"] = sc["tag"] + f"+setdec@{p}"
            out.append(c)
            sid += 1
    return out


def at_levels(scs, levels, sid0=0):
    """the same scripts with the server created at other decode levels (nothing observable may change)"""
    out = []
    for sc in scs:
        for lv in levels:
            c = dict(sc)
            c["id"] = sid0 + len(out)
            c["decode"] = list(lv)
            c["tag"] = sc["tag"] + f"+dec{list(lv)}"
            out.append(c)
    return out


def gen_split_with_command(rng, n, sid0=0, framings=("tcp", "rtu"), auth_modes=(None,), tagp="split"):
    """a command that reaches the session between the reads of one split frame must not disturb its handling"""
    out = []
    for framing in framings:
        for k in range(n):
            pdu = random_valid_pdu(rng) if rng.random() < 0.7 else req_wmr(3, [1, 2, 3])
            if framing == "rtu" and not rtu_delimitable(pdu):
                continue
            f = frame(framing, 7 + k, 1, pdu)
            cut = rng.choice([1, 2, 6, 7, 8, len(f) - 1])
            cut = max(1, min(len(f) - 1, cut))
            g = frame(framing, 8 + k, 1, readback_of(pdu) or req_read(3, 0, 1))
            steps = [rx(f[:cut]), {"op": "decode", "level": rng.choice(DECODES)}, rx(f[cut:]), rx(g)]
            out.append(scenario(sid0 + len(out), framing, [1, 2], steps, seed=rng.randrange(100),
                                auth=rng.choice(list(auth_modes)), tag=f"{tagp}-command-inside-split-frame@{cut}"))
    return out


# ------------------------------------------------------------------ spec -> impl: the PDU universe enumerated by TLC
def tlc_pdu_universe(workdir):
    import subprocess
    import shutil
    cfg = os.path.join(workdir, "vec.cfg")
    consts = {"MaxReadBits": 3, "MaxReadRegs": 2, "MaxWriteCoils": 3, "MaxWriteRegs": 2, "AddrSpace": 8, "Units": "{1}",
              "ProbeUnits": "{1}", "Fcs": "{1, 2, 3, 4, 5, 6, 15, 16, 0, 7, 43, 129, 255}", "Bytes": "{0, 1, 2, 255}",
              "TailBytes": "{0, 1, 255}", "HoleSet": "<- HoleSetDef", "Policies": '{"none"}', "Framings": '{"tcp"}',
              "ErrorRepliesBeforeUnitLookup": "FALSE"}
    vf.write_cfg(cfg, "Spec", consts)
    out = os.path.join(workdir, "pdus.json")
    env = dict(os.environ)
    env.update({"OUT": out, "JAVA_TOOL_OPTIONS": "-Xss256m -Xmx4g"})
    md = os.path.join(workdir, "vecmd")
    p = subprocess.run(["tlc", "-workers", "1", "-metadir", md, "-cleanup", "-noGenerateSpecTE", "-config", cfg, "ServerSession_Vec.tla"],
                       cwd=vf.SPEC, env=env, stdout=subprocess.PIPE, stderr=subprocess.STDOUT, text=True, timeout=900)
    shutil.rmtree(md, ignore_errors=True)
    if not os.path.exists(out):
        raise vf.ToolError("TLC did not write the PDU universe:\n" + p.stdout[-2000:])
    return json.load(open(out))


def gen_universe_scenarios(rng, pdus, sid0=0, per_scenario=150):
    scs = []
    for framing in ("tcp", "rtu"):
        items = [p for p in pdus if framing == "tcp" or rtu_delimitable(p)]
        for i in range(0, len(items), per_scenario):
            units = rng.choice([[1], [1, 2], [3, 17, 200]])
            steps = []
            tx = rng.randrange(60000)
            for p in items[i:i + per_scenario]:
                steps.append(rx(frame(framing, tx, pick_unit(rng, units, framing, 0.1), p)))
                tx = (tx + 1) % 65536
            scs.append(scenario(sid0 + len(scs), framing, units, steps, seed=rng.randrange(1000),
                                holes=[{"u": units[0], "t": 2, "a": 1, "code": 4}, {"u": units[0], "t": 0, "a": 2, "code": 2}],
                                auth=rng.choice([None, None, {"policy": "hash", "seed": 5, "role": "r"}]), tag="tlc-universe"))
    return scs


# ------------------------------------------------------------------ the RTU server task (port open / re-open loop)
RTU_TASK_MODULE = "RtuServerTaskTrace.tla"
RTU_TASK_CFG = "RtuServerTaskTrace.cfg"


def rtu_task_scenario(sid, units, steps, retry, port, decode=(0, 0, 0), seed=0, holes=(), tag=""):
    return {"id": sid, "framing": "rtu", "units": list(units), "decode": list(decode), "seed": seed, "holes": list(holes),
            "retry": list(retry), "port": port, "steps": steps, "tag": tag}


def check_rtu_task(res, scs, workdir, name):
    by_id = {s["id"]: s for s in scs}
    os.makedirs(workdir, exist_ok=True)
    sp = os.path.join(workdir, f"{name}.scripts.ndjson")
    tp = os.path.join(workdir, f"{name}.trace.ndjson")
    with open(sp, "w") as f:
        for s in scs:
            f.write(json.dumps(s) + "\n")
    rc, out = vf.sh([vf.harness_bin("e1_rtutask"), sp, tp], timeout=3600)
    if rc not in (0, 3):
        raise vf.ToolError(f"e1_rtutask failed rc={rc}:\n{out[-3000:]}")
    stats, rejs = vf.validate_trace(RTU_TASK_MODULE, RTU_TASK_CFG, tp, workdir)
    res.add_trace_stats(name, stats, {"harness_exit": rc})
    res.evaluations += len(scs)
    for s in scs:
        res.distinct.add(vf.sha(json.dumps(s["steps"])[:4000] + str(s["units"]) + str(s["retry"])))
    if rc == 3 and not rejs:
        raise vf.ToolError("harness watchdog fired but the trace validated")
    return [(by_id.get(r["scenario_head"].get("id")), r) for r in rejs]


def _wait_steps(rng, d, port_state, nxt_ok, noise=True):
    """wait d ms as (1, d-2, 1) with the state of the port for the next attempt put in place before the last ms"""
    pre = []
    nz = []
    if noise and rng.random() < 0.5:
        nz = [{"op": "decode", "level": rng.choice(DECODES)}]
    if d > 2:
        pre = [{"op": "tick", "d": 1}] + nz + [{"op": "tick", "d": d - 2}]
    elif d == 2:
        pre = nz + [{"op": "tick", "d": 1}]
    else:
        pre = nz
    if nxt_ok != port_state[0]:
        pre.append({"op": "port", "ok": nxt_ok})
        port_state[0] = nxt_ok
    return pre + [{"op": "tick", "d": 1}]


def gen_rtu_task_c14(rng, thorough=False):
    scs = []
    grid = [(1, 1), (1, 8), (10, 15), (100, 250), (100, 800), (1000, 60000), (3, 1000)]
    patterns = ["FFFFFFFF", "FFFeFFF", "egeg", "FFgeF", "eFeFFFeFF", "gFFg", "rFr"]
    for rmin, rmax in grid:
        for pattern in patterns:
            port = [pattern[0] != "F"]
            first = port[0]
            cur = rmin
            steps = []
            for k, c in enumerate(pattern):
                nxt_ok = (pattern[k + 1] != "F") if k + 1 < len(pattern) else port[0]
                if c == "F":
                    d = cur
                    cur = min(2 * cur, rmax)
                    steps += _wait_steps(rng, d, port, nxt_ok)
                else:
                    cur = rmin
                    p = random_valid_pdu(rng)
                    steps.append(rx(rtu(1, p)))
                    if c == "e":
                        steps.append({"op": "eof"})
                    elif c == "r":
                        steps.append({"op": "rerr", "kind": "ConnectionReset"})
                    else:
                        steps.append(rx(rtu(1, random_valid_pdu(rng), bad_crc=True)))
                    if rng.random() < 0.4:
                        steps.append(rx(rtu(1, req_wsr(5, 5))))      # sent while nobody listens: lost
                    steps += _wait_steps(rng, rmin, port, nxt_ok)
            steps.append(rx(rtu(1, req_read(3, 0, 2))))
            scs.append(rtu_task_scenario(len(scs), [1, 2], steps, (rmin, rmax), first, seed=rng.randrange(1000),
                                         tag=f"rtutask-c14-{rmin}-{rmax}-{pattern}"))
    return scs


def gen_rtu_task_random(rng, n, sid0=0):
    scs = []
    for k in range(n):
        rmin = rng.choice([1, 10, 100, 1000])
        rmax = rmin * rng.choice([1, 2, 3, 8])
        units = rng.choice([[1], [1, 2], [0, 5], [247]])
        steps = []
        pdus = []
        for _ in range(rng.randint(4, 40)):
            x = rng.random()
            if x < 0.35:
                p = random_valid_pdu(rng)
                pdus.append(p)
                u = rng.choice(units + [0, 9])
                f = rtu(u, p)
                if rng.random() < 0.2:
                    cut = rng.randrange(1, len(f))
                    steps += [rx(f[:cut]), rx(f[cut:])]
                else:
                    steps.append(rx(f))
            elif x < 0.42:
                steps.append(rx(rtu(rng.choice(units), random_valid_pdu(rng), bad_crc=True)))
            elif x < 0.47:
                steps.append(rx([rng.randrange(256) for _ in range(rng.choice([1, 2, 5]))]))
            elif x < 0.55:
                steps.append({"op": rng.choice(["eof", "rerr"]), "kind": "ConnectionReset"})
            elif x < 0.65:
                steps.append({"op": "port", "ok": rng.random() < 0.6})
            elif x < 0.90:
                steps.append({"op": "tick", "d": rng.choice([1, 9, rmin - 1 if rmin > 1 else 1, rmin, 2 * rmin, rmax, rmax + 1, 4 * rmax])})
            elif x < 0.96:
                steps.append({"op": "decode", "level": rng.choice(DECODES)})
            elif x < 0.98:
                steps.append({"op": "shutdown"})
            else:
                steps.append({"op": "drop"})
        scs.append(rtu_task_scenario(sid0 + k, units, steps, (rmin, rmax), rng.random() < 0.6, decode=rng.choice(DECODES),
                                     seed=rng.randrange(1000), holes=holes_for(rng, units, pdus, density=0.2),
                                     tag="rtutask-random"))
    return scs


def gen_rtu_task_c06(rng, thorough=False):
    """the same byte-count damage against the RTU server task: it re-opens the port (keeping its reader) every `min` ms"""
    scs = []
    for unit in (1, 0x11):
        for name, pdu in (("wmr", req_wmr(2, [0x1234, 0xFFFF])), ("wmc", req_wmc(7, [True, False, True, True, False, False, True]))):
            for bc in (0xF7, 0xF8, 0xFF, 0x00):
                bad = list(pdu)
                bad[5] = bc
                f = rtu(unit, bad)
                steps = [rx(f)] + [{"op": "tick", "d": 5}] * (len(f) + 3)
                steps += [rx(rtu(1, req_read(3, 40, 2))), rx(rtu(2, req_wsr(3, 9))), rx(rtu(2, req_read(3, 3, 1)))]
                scs.append(rtu_task_scenario(len(scs), [1, 2], steps, (5, 40), True, seed=11, decode=rng.choice(DECODES),
                                             tag=f"rtutask-c06-bytecount-{name}-{bc:#x}-unit{unit}"))
    return scs


# ------------------------------------------------------------------ black-box serial slice (pseudo-terminal, no hook)
def gen_pty_server(rng, thorough=False):
    """traffic that never ends an RTU session (valid CRC, delimitable function codes): unit discipline, broadcast,
    exceptions, maximum-size frames -- on a real serial device opened by tokio_serial with various settings"""
    scs = []
    # only settings under which the line is transparent for 8-bit data: seven data bits or software flow control
    # (XON/XOFF bytes are swallowed by the line discipline) change the byte stream itself and say nothing about rodbus
    settings = [(9600, ["Eight", "None", "None", "One"]), (19200, ["Eight", "None", "Even", "Two"]),
                (115200, ["Eight", "None", "Odd", "One"]), (1200, ["Eight", "None", "None", "Two"])]
    maps = [[1, 2], [3, 17, 200], [0, 5], [247]]
    for k, units in enumerate(maps if thorough else maps[:3]):
        baud, st = settings[k % len(settings)]
        steps = []
        pdus = []
        uids = sorted(set(units + [0, 9, 255] + [rng.randrange(256) for _ in range(3)]))
        for u in uids:
            cands = [req_read(rng.choice([1, 2, 3, 4]), 5, 3), req_wsr(6, u * 3 + 1), req_wmc(4, [True, False, True]),
                     req_read(3, 98, 5), req_read(1, 0, 2001), req_wsc(1, True, raw=0x1234), req_wmr(0, [rng.randrange(65536) for _ in range(123)]),
                     req_read(3, 0, 125), req_read(1, 7, 2000)]
            for p in rng.sample(cands, 4 if not thorough else len(cands)):
                if not rtu_delimitable(p):
                    continue
                pdus.append(p)
                f = rtu(u, p)
                if rng.random() < 0.25 and len(f) > 4:
                    cut = rng.randrange(1, len(f))
                    steps += [rx(f[:cut]), rx(f[cut:])]
                else:
                    steps.append(rx(f))
        for u in units:
            if u != 0:
                steps.append(rx(rtu(u, req_read(3, 4, 4))))
                steps.append(rx(rtu(u, req_read(1, 3, 5))))
        if rng.random() < 0.5:
            steps.insert(len(steps) // 2, {"op": "decode", "level": rng.choice(DECODES)})
        sc = scenario(len(scs), "rtu", units, steps, seed=rng.randrange(100), decode=rng.choice(DECODES),
                      holes=[{"u": u, "t": 2, "a": 100, "code": 4} for u in units], tag=f"pty-server-units{units}-{baud}-{'-'.join(st)}")
        sc["settings"] = st
        sc["baud"] = baud
        scs.append(sc)
    return scs


def check_pty_server(res, scs, workdir, name):
    by_id = {s["id"]: s for s in scs}
    os.makedirs(workdir, exist_ok=True)
    sp = os.path.join(workdir, f"{name}.scripts.ndjson")
    tp = os.path.join(workdir, f"{name}.trace.ndjson")
    with open(sp, "w") as f:
        for s in scs:
            f.write(json.dumps(s) + "\n")
    rc, out = vf.sh([vf.harness_bin("e3_pty"), sp, tp], timeout=3600)
    if rc not in (0, 3):
        raise vf.ToolError(f"e3_pty failed rc={rc}:\n{out[-3000:]}")
    stats, rejs = vf.validate_trace(MODULE, CFG, tp, workdir)
    res.add_trace_stats(name, stats, {"harness_exit": rc, "transport": "pseudo-terminal (tokio_serial)"})
    res.evaluations += len(scs)
    for s in scs:
        res.distinct.add(vf.sha(json.dumps(s["steps"])[:4000] + str(s["units"]) + "pty"))
    return [(by_id.get(r["scenario_head"].get("id")), r) for r in rejs]
