"""Engine E1: server session.  Input generators + runner (harness) + TLC trace validation."""
import json
import os
import random

import vf
from mb import *

MODULE = "ServerSessionTrace.tla"
CFG = "ServerSessionTrace.cfg"

KNOWN = [1, 2, 3, 4, 5, 6, 15, 16]
UNKNOWN_FCS = [0, 7, 8, 11, 12, 17, 20, 21, 22, 23, 24, 43, 0x41, 0x64, 0x7F, 0x80, 0x81, 0x83, 0x85,
               0x8F, 0x90, 0xFF]
DECODES = [[a, f, p] for a in range(4) for f in range(3) for p in range(3)]


def scenario(sid, framing, units, steps, auth=None, decode=(0, 0, 0), seed=0, holes=(), tag=""):
    return {"id": sid, "framing": framing, "units": list(units), "auth": auth, "decode": list(decode),
            "seed": seed, "holes": list(holes), "steps": steps, "tag": tag}


def rx(b):
    return {"op": "rx", "bytes": list(b)}


# ------------------------------------------------------------------ request classes
def starts_for(c):
    s = {0, 1, 65535 - c, 65536 - c, 65537 - c, 65535, 32768}
    return sorted(x for x in s if 0 <= x <= 65535)


def read_lattice(fc):
    counts = [0, 1, 2, 7, 8, 9, 15, 16, 17, 1999, 2000, 2001, 2040, 2041, 65535] if fc in (1, 2) else \
        [0, 1, 2, 3, 124, 125, 126, 127, 128, 255, 256, 65535]
    out = []
    for c in counts:
        for s in starts_for(c):
            out.append((req_read(fc, s, c), f"fc{fc} s={s} c={c}"))
    return out


def length_variants(pdu):
    """truncations and extensions of a fixed-size request"""
    out = []
    for n in (0, 1, 2, 3, 4):
        out.append((pdu[:1 + n], f"body={n}"))
    out.append((pdu + [0], "body+1"))
    out.append((pdu + [0, 0], "body+2"))
    out.append((pdu + [7] * (253 - len(pdu)), "body=max"))
    return out


def write_single_lattice():
    out = []
    for idx in (0, 1, 255, 256, 65534, 65535):
        for raw in (0x0000, 0xFF00, 0x00FF, 0xFF01, 0x0001, 0x1234, 0xFFFF):
            out.append((req_wsc(idx, False, raw=raw), f"wsc idx={idx} raw={raw:#06x}"))
        for v in (0, 1, 0x1234, 0xFFFF):
            out.append((req_wsr(idx, v), f"wsr idx={idx} v={v}"))
    return out


def wmc_lattice(rng):
    out = []
    for c in (0, 1, 7, 8, 9, 16, 17, 1967, 1968, 1969, 1975, 1976):
        for s in starts_for(c)[:6]:
            bits = [rng.random() < 0.5 for _ in range(c)]
            out.append((req_wmc(s, bits), f"wmc s={s} c={c}"))
    # length / byte count lies
    for c in (1, 8, 9, 100):
        bits = [True] * c
        good = req_wmc(10, bits)
        out.append((good[:-1], f"wmc c={c} data-1"))
        out.append((good + [0], f"wmc c={c} data+1"))
        out.append((req_wmc(10, bits, bytecount=0), f"wmc c={c} bytecount=0"))
        out.append((req_wmc(10, bits, bytecount=255), f"wmc c={c} bytecount=255"))
        out.append((req_wmc(10, bits, count=c + 8), f"wmc count field +8"))
        out.append((req_wmc(10, bits, count=0), f"wmc count field 0"))
    out.append(([15, 0, 0, 0, 1], "wmc no bytecount"))
    return out


def wmr_lattice(rng):
    out = []
    for c in (0, 1, 2, 3, 122, 123):
        for s in starts_for(c)[:6]:
            regs = [rng.randrange(65536) for _ in range(c)]
            out.append((req_wmr(s, regs), f"wmr s={s} c={c}"))
    for c in (1, 2, 50):
        regs = [0xABCD] * c
        good = req_wmr(20, regs)
        out.append((good[:-1], f"wmr c={c} data-1"))
        out.append((good + [0], f"wmr c={c} data+1"))
        out.append((req_wmr(20, regs, bytecount=0), f"wmr c={c} bytecount=0"))
        out.append((req_wmr(20, regs, count=c + 1), f"wmr count field +1"))
        out.append((req_wmr(20, regs, count=0), f"wmr count field 0"))
    out.append(([16, 0, 0, 0, 1], "wmr no bytecount"))
    return out


def unknown_lattice():
    out = []
    for fc in UNKNOWN_FCS:
        for body in ([], [0], [0, 1, 0, 1], [9] * 252):
            out.append(([fc] + body, f"fc={fc} body={len(body)}"))
    return out


def full_lattice(rng):
    """the request class lattice (PDUs), every entry tagged"""
    out = []
    for fc in (1, 2, 3, 4):
        out += read_lattice(fc)
        out += [(p, f"fc{fc} " + n) for p, n in length_variants(req_read(fc, 3, 2))]
    out += write_single_lattice()
    out += [(p, "wsc " + n) for p, n in length_variants(req_wsc(3, True))]
    out += [(p, "wsr " + n) for p, n in length_variants(req_wsr(3, 9))]
    out += wmc_lattice(rng)
    out += wmr_lattice(rng)
    out += unknown_lattice()
    out.append(([], "empty pdu"))
    return out


def rtu_delimitable(pdu):
    """can the RTU length table delimit this request exactly as sent?"""
    if not pdu or pdu[0] not in KNOWN:
        return False
    if pdu[0] in (15, 16):
        return len(pdu) >= 6 and len(pdu) == 6 + pdu[5]
    return len(pdu) == 5


def holes_for(rng, units, pdus, density=0.5):
    """place handler exceptions at the first / middle / last address of some requests"""
    holes = {}
    for pdu in pdus:
        if len(pdu) < 5 or pdu[0] not in KNOWN or rng.random() > density:
            continue
        fc = pdu[0]
        s = (pdu[1] << 8) | pdu[2]
        c = ((pdu[3] << 8) | pdu[4]) if fc not in (5, 6) else 1
        if c == 0 or s + c > 65536 or c > 2100:
            continue
        t = {1: 0, 5: 0, 15: 0, 2: 1, 3: 2, 6: 2, 16: 2, 4: 3}[fc]
        a = rng.choice([s, s + c // 2, s + c - 1])
        u = rng.choice(units) if units else 1
        code = rng.choice([1, 2, 3, 4, 5, 6, 8, 10, 11, 0, 7, 9, 200, 255]) or 2
        holes[(u, t, a)] = code
    return [{"u": u, "t": t, "a": a, "code": c} for (u, t, a), c in holes.items()]


UNIT_SETS = [[1], [1, 2], [3, 17, 200], [255], [0, 5], [], [247, 248]]


def pick_unit(rng, units, framing, p_other=0.15):
    if rng.random() < p_other or not units:
        return rng.choice([0, 1, 2, 9, 99, 247, 248, 255])
    return rng.choice(units)


def gen_lattice_scenarios(rng, framing, per_scenario=25, sid0=0, limit=None, auth_modes=(None,)):
    lat = full_lattice(rng)
    if framing == "rtu":
        lat = [(p, n) for p, n in lat if rtu_delimitable(p)]
    rng.shuffle(lat)
    if limit:
        lat = lat[:limit]
    scs = []
    sid = sid0
    for i in range(0, len(lat), per_scenario):
        chunk = lat[i:i + per_scenario]
        units = rng.choice(UNIT_SETS[:5])
        steps = []
        tx = rng.randrange(65536)
        for pdu, note in chunk:
            u = pick_unit(rng, units, framing)
            steps.append(rx(frame(framing, tx, u, pdu)))
            tx = (tx + 1) % 65536
        auth = rng.choice(auth_modes)
        scs.append(scenario(sid, framing, units, steps, auth=auth, seed=rng.randrange(1000),
                            holes=holes_for(rng, units, [p for p, _ in chunk]), tag="lattice"))
        sid += 1
    return scs


# ------------------------------------------------------------------ random sequences
def random_valid_pdu(rng, small=True):
    fc = rng.choice(KNOWN)
    if fc in (1, 2):
        c = rng.choice([1, 2, 7, 8, 9, 16, 33, 100]) if small else rng.choice([1, 8, 500, 1999, 2000])
        s = rng.choice([0, 5, 100, 65536 - c, rng.randrange(0, 65536 - c)])
        return req_read(fc, s, c)
    if fc in (3, 4):
        c = rng.choice([1, 2, 3, 10, 50]) if small else rng.choice([1, 60, 124, 125])
        s = rng.choice([0, 5, 100, 65536 - c, rng.randrange(0, 65536 - c)])
        return req_read(fc, s, c)
    if fc == 5:
        return req_wsc(rng.choice([0, 5, 100, 65535, rng.randrange(65536)]), rng.random() < 0.5)
    if fc == 6:
        return req_wsr(rng.choice([0, 5, 100, 65535, rng.randrange(65536)]), rng.randrange(65536))
    if fc == 15:
        c = rng.choice([1, 3, 8, 9, 20, 64]) if small else rng.choice([1, 800, 1968])
        s = rng.choice([0, 5, 100, 65536 - c])
        return req_wmc(s, [rng.random() < 0.5 for _ in range(c)])
    c = rng.choice([1, 2, 5, 20]) if small else rng.choice([1, 100, 123])
    s = rng.choice([0, 5, 100, 65536 - c])
    return req_wmr(s, [rng.randrange(65536) for _ in range(c)])


def readback_of(pdu):
    """a read that covers what a write just wrote"""
    fc = pdu[0]
    s = (pdu[1] << 8) | pdu[2]
    if fc == 5:
        return req_read(1, s, 1)
    if fc == 6:
        return req_read(3, s, 1)
    c = (pdu[3] << 8) | pdu[4]
    if fc == 15:
        return req_read(1, max(0, s - 1), min(c + 2, 2000, 65536 - max(0, s - 1)))
    if fc == 16:
        return req_read(3, max(0, s - 1), min(c + 2, 125, 65536 - max(0, s - 1)))
    return None


def random_invalid_pdu(rng, lattice):
    return rng.choice(lattice)[0]


def chunk_random(rng, data, maxchunk=None):
    out = []
    i = 0
    while i < len(data):
        n = rng.choice([1, 2, 3, 5, 7, 8, 13, 64, 259, 260, 261, 600]) if maxchunk is None else rng.randint(1, maxchunk)
        out.append(data[i:i + n])
        i += n
    return out


def gen_random_sequences(rng, framing, n, sid0, lattice, auth_modes=(None,), small=True, frames=(1, 30),
                         decodes=((0, 0, 0),), p_invalid=0.3):
    scs = []
    for k in range(n):
        units = rng.choice(UNIT_SETS)
        nfr = rng.randint(*frames)
        pdus = []
        while len(pdus) < nfr:
            if rng.random() < p_invalid:
                p = random_invalid_pdu(rng, lattice)
                if framing == "rtu" and not rtu_delimitable(p):
                    continue
                pdus.append(p)
            else:
                p = random_valid_pdu(rng, small=small)
                pdus.append(p)
                if p[0] in (5, 6, 15, 16) and rng.random() < 0.6:
                    rb = readback_of(p)
                    if rb:
                        pdus.append(rb)
        tx = rng.randrange(65536)
        frames_b = []
        sticky_unit = rng.choice(units) if units else 1
        for p in pdus:
            u = sticky_unit if rng.random() < 0.7 else pick_unit(rng, units, framing, 0.3)
            frames_b.append(frame(framing, tx, u, p))
            tx = (tx + 1) % 65536
        mode = rng.choice(["per-frame", "blast", "random", "bytes"]) if nfr <= 12 else rng.choice(["per-frame", "blast", "random"])
        steps = []
        if mode == "per-frame":
            steps = [rx(f) for f in frames_b]
        else:
            data = [b for f in frames_b for b in f]
            if mode == "blast":
                steps = [rx(data)]
            elif mode == "bytes":
                steps = [rx([b]) for b in data[:600]] + ([rx(data[600:])] if len(data) > 600 else [])
            else:
                steps = [rx(c) for c in chunk_random(rng, data)]
        scs.append(scenario(sid0 + k, framing, units, steps, auth=rng.choice(auth_modes),
                            decode=rng.choice(decodes), seed=rng.randrange(1000),
                            holes=holes_for(rng, units, pdus, density=0.3), tag="random-" + mode))
    return scs


# ------------------------------------------------------------------ runner
def run_scripts(scs, workdir, name="e1"):
    os.makedirs(workdir, exist_ok=True)
    sp = os.path.join(workdir, f"{name}.scripts.ndjson")
    tp = os.path.join(workdir, f"{name}.trace.ndjson")
    with open(sp, "w") as f:
        for s in scs:
            f.write(json.dumps(s) + "\n")
    rc, out = vf.sh([vf.harness_bin("e1_session"), sp, tp], timeout=3600)
    if rc not in (0, 3):
        raise vf.ToolError(f"e1_session failed rc={rc}:\n{out[-3000:]}")
    return sp, tp, rc


def check_scripts(res, scs, workdir, name, describe=None):
    """run + validate; every rejected scenario becomes a violation with a replay file"""
    by_id = {s["id"]: s for s in scs}
    sp, tp, rc = run_scripts(scs, workdir, name)
    stats, rejs = vf.validate_trace(MODULE, CFG, tp, workdir)
    res.add_trace_stats(name, stats, {"harness_exit": rc})
    res.evaluations += len(scs)
    for s in scs:
        res.distinct.add(vf.sha(json.dumps(s["steps"])[:4000] + str(s["units"]) + s["framing"]))
    out = []
    for r in rejs:
        sid = r["scenario_head"].get("id")
        sc = by_id.get(sid)
        out.append((sc, r))
    if rc == 3 and not rejs:
        raise vf.ToolError("harness watchdog fired but the trace validated")
    return out


def describe_rejection(sc, r):
    ev = r["unmatched_event"]
    st = r["spec_state"]
    exp = st.get("exp") if isinstance(st, dict) else st
    return (f"scenario {sc['id'] if sc else '?'} ({sc.get('tag') if sc else ''}, {sc['framing'] if sc else ''}, "
            f"units={sc['units'] if sc else ''}): at event #{r['line_in_scenario']} the implementation did "
            f"{json.dumps(ev)[:300]} but the specification prescribes {str(exp)[:300]}"
            + (f" [invariant {r['invariant']}]" if r.get("invariant") else ""))


def replay_obj(pid, sc, r):
    return {"property": pid, "engine": "e1", "scenario": sc,
            "rejection": {k: r[k] for k in ("line_in_scenario", "unmatched_event", "spec_state", "invariant",
                                            "matched_prefix_tail")},
            "trace": r["scenario_trace"]}
