"""Engine E5: the C ABI (rodbus-ffi extern "C" functions). Generators + runner."""
import json
import os

import vf
from mb import *

MODULE = "FfiTrace.tla"
CFG = "FfiTrace.cfg"


# ------------------------------------------------------------------ C18: write results
def gen_write_results(rng, thorough=False):
    idxs = [0, 100, 1, 2, 3, 4, 5, 6, 8, 10, 11, 7, 9, 12, 13, 127, 128, 200, 254, 255, 256, 257, 300, 511, 1000, 65535]
    idxs += [30000 + k for k in (0, 1, 2, 3, 4, 6, 7, 11, 200, 255)]        # success with the other members set
    if thorough:
        idxs = sorted(set(idxs + list(range(0, 256)) + [256 + i for i in range(0, 256, 7)] + list(range(30000, 30256))))
    steps = []
    for i in idxs:
        steps.append({"pdu": req_wsc(i, rng.random() < 0.5)})
        steps.append({"pdu": req_wsr(i, rng.randrange(65536))})
        if i + 3 <= 65536:
            steps.append({"pdu": req_wmc(i, [True, False, True][: max(1, min(3, 65536 - i))])})
            steps.append({"pdu": req_wmr(i, [7, 8][: max(1, min(2, 65536 - i))])})
    return [{"id": 0, "kind": "write_results", "steps": steps, "tag": "c18-write-results"}]


# ------------------------------------------------------------------ C18: client operations
def op(fc, unit=1, start=0, count=1, values=(), timeout=200, peer="reply", pdu=(), null_channel=False):
    return {"op": "request", "fc": fc, "unit": unit, "start": start, "count": count, "values": list(values), "timeout": timeout,
            "peer": peer, "pdu": list(pdu), "null_channel": null_channel}


def good_reply(rng, o):
    fc = o["fc"]
    if fc in (1, 2):
        data = pack_bits([rng.random() < 0.5 for _ in range(o["count"])])
        return [fc, len(data) & 255] + data
    if fc in (3, 4):
        data = []
        for _ in range(o["count"]):
            data += u16(rng.randrange(65536))
        return [fc, len(data) & 255] + data
    if fc == 5:
        return req_wsc(o["start"], bool(o["values"][0]))
    if fc == 6:
        return req_wsr(o["start"], o["values"][0])
    return [fc] + u16(o["start"]) + u16(len(o["values"]))


def rand_op(rng):
    fc = rng.choice([1, 2, 3, 4, 5, 6, 15, 16])
    unit = rng.choice([0, 1, 17, 255])
    if fc in (1, 2):
        c = rng.choice([1, 8, 9, 2000])
        return op(fc, unit, rng.choice([0, 100, 65536 - c]), c)
    if fc in (3, 4):
        c = rng.choice([1, 2, 125])
        return op(fc, unit, rng.choice([0, 100, 65536 - c]), c)
    if fc == 5:
        return op(fc, unit, rng.choice([0, 9, 65535]), 1, [rng.randrange(2)])
    if fc == 6:
        return op(fc, unit, rng.choice([0, 9, 65535]), 1, [rng.randrange(65536)])
    if fc == 15:
        c = rng.choice([1, 9, 1968])
        return op(fc, unit, rng.choice([0, 65536 - c]), c, [rng.randrange(2) for _ in range(c)])
    c = rng.choice([1, 3, 123])
    return op(fc, unit, rng.choice([0, 65536 - c]), c, [rng.randrange(65536) for _ in range(c)])


def gen_client_ops(rng, thorough=False):
    scs = []
    # (a) every operation x outcome class against the scripted peer
    steps = [{"op": "enable", "peer": "reply"}]
    for fc in (1, 2, 3, 4, 5, 6, 15, 16):
        for _ in range(3 if thorough else 1):
            o = rand_op(rng)
            while o["fc"] != fc:
                o = rand_op(rng)
            g = dict(o)
            g["pdu"] = good_reply(rng, o)
            steps.append(g)
            # exceptions: standard and raw codes
            for code in ([1, 2, 3, 4, 5, 6, 8, 10, 11, 0, 7, 9, 12, 200, 255] if thorough else [1, 2, 3, 4, 5, 6, 8, 10, 11, 7, 255]):
                e = dict(o)
                e["pdu"] = [fc + 128, code]
                steps.append(e)
            b = dict(o)
            b["pdu"] = [fc, 1, 2, 3, 4, 5, 6, 7, 8, 9]          # malformed reply
            steps.append(b)
            w = dict(o)
            w["pdu"] = [fc ^ 1] + good_reply(rng, o)[1:]        # wrong function
            steps.append(w)
            s = dict(o)
            s["peer"] = "silence"
            s["timeout"] = rng.choice([50, 150, 300])
            steps.append(s)
        if fc in (3, 16) or thorough:
            # a reply that violates the framing: reported as the framing error that breaks the connection
            bf = dict(o)
            bf["peer"] = "badframe"
            bf["timeout"] = 1000
            steps.append(bf)
    scs.append({"id": len(scs), "kind": "client_ops", "queue": 16, "steps": steps, "tag": "c18-ops-x-outcomes"})
    # (b) argument errors: the completion callback must still fire exactly once
    steps = [{"op": "enable", "peer": "reply"}]
    bad = [op(1, 1, 0, 0), op(2, 1, 65535, 2), op(3, 1, 0, 0), op(4, 1, 65530, 10), op(1, 1, 0, 2001), op(2, 1, 0, 65535), op(3, 1, 0, 126),
           op(4, 1, 0, 300), op(15, 1, 0, 0, []), op(16, 1, 0, 0, []), op(15, 1, 65535, 2, [1, 1]), op(16, 1, 65535, 2, [1, 2]),
           op(15, 1, 0, 1969, [1] * 1969), op(16, 1, 0, 124, [5] * 124),
           op(1, null_channel=True), op(3, null_channel=True), op(5, 1, 3, 1, [1], null_channel=True), op(6, 1, 3, 1, [9], null_channel=True),
           op(15, 1, 0, 2, [1, 0], null_channel=True), op(16, 1, 0, 2, [1, 2], null_channel=True)]
    for b in bad:
        steps.append(b)
        g = rand_op(rng)
        g["pdu"] = good_reply(rng, g)
        steps.append(g)
    scs.append({"id": len(scs), "kind": "client_ops", "queue": 16, "steps": steps, "tag": "c18-argument-errors"})
    # (a') the application may use one list for several calls: the values pass through unchanged every time
    steps = [{"op": "enable", "peer": "reply"}]
    for fc, vals in ((15, [1, 0, 1, 1, 0, 0, 1, 0, 1]), (16, [0x1234, 0xABCD, 7])):
        for rep in range(3):
            o = op(fc, 1, 10 * rep, len(vals), vals)
            o["reuse"] = True
            o["pdu"] = good_reply(rng, o)
            steps.append(o)
    scs.append({"id": len(scs), "kind": "client_ops", "queue": 16, "steps": steps, "tag": "c18-list-reuse"})
    for n in ((1, 2, 7, 16) if thorough else (1, 3)):
        scs.append({"id": len(scs), "kind": "client_queue", "queue": n, "steps": [], "tag": f"c18-queue-depth-{n}"})
    # RTU channel and RTU server through the C ABI: every enumerator of every serial setting (thorough: all combinations)
    import itertools
    allc = list(itertools.product(["Five", "Six", "Seven", "Eight"], ["None", "Software", "Hardware"], ["None", "Odd", "Even"], ["One", "Two"]))
    if not thorough:
        # every enumerator at least once per role, plus two random combinations
        allc = [("Five", "None", "None", "One"), ("Six", "Software", "Odd", "Two"), ("Seven", "Hardware", "Even", "One"),
                ("Eight", "None", "Odd", "One")] + [rng.choice(allc) for _ in range(2)]
    steps = []
    for i, (db, fl, pa, sb) in enumerate(allc):
        for role in (("client", "server") if (not thorough or i % 3 == 0) else (("client",) if i % 3 == 1 else ("server",))):
            cfg = {"path": f"/dev/ttyVERIF{i}", "baud": rng.choice([1200, 9600, 19200, 115200, 4000000]), "data_bits": db, "flow": fl,
                   "parity": pa, "stop": sb, "unit": rng.choice([1, 17, 247])}
            steps.append({"op": role, "peer": json.dumps(cfg)})
    scs.append({"id": len(scs), "kind": "rtu_cabi", "queue": 1, "steps": steps, "tag": "c18-rtu-through-the-c-abi"})
    # decode levels: every level of each component (thorough: all 36 combinations), given at creation and set at run time
    if thorough:
        lv = [[a, f, p] for a in range(4) for f in range(3) for p in range(3)]
    else:
        lv = [[0, 0, 0], [1, 0, 0], [2, 0, 0], [3, 0, 0], [0, 1, 0], [0, 2, 0], [0, 0, 1], [0, 0, 2], [3, 2, 2], [rng.randrange(4), rng.randrange(3), rng.randrange(3)]]
    steps = [{"op": "create", "values": x} for x in lv] + [{"op": "set", "values": x} for x in (lv if thorough else lv[1:9:2] + [lv[8]])]
    steps += [{"op": "server", "values": x} for x in (lv if thorough else lv[0:9:2] + [lv[9]])]
    steps += [{"op": "server_set", "values": x} for x in (lv if thorough else [lv[3], lv[5], lv[7], lv[8]])]
    scs.append({"id": len(scs), "kind": "decode_levels", "queue": 1, "steps": steps, "tag": "c18-decode-levels-same-named"})
    # the retry strategy handed to rodbus_client_channel_create_tcp: min, 2 min, ... capped at max (start = min, count = max,
    # timeout = number of attempts to observe)
    for (mn, mx, att) in (((150, 500, 5), (300, 300, 3), (100, 1000, 5)) if thorough else ((150, 500, 5),)):
        scs.append({"id": len(scs), "kind": "client_retry", "queue": 1, "steps": [{"op": "retry", "start": mn, "count": mx, "timeout": att}],
                    "tag": f"c18-retry-strategy-{mn}-{mx}"})
    # (c) not connected / connection lost / after destroy
    steps = []
    for _ in range(4):
        o = rand_op(rng)
        o["peer"] = "noconn"
        steps.append(o)
    steps.append({"op": "enable", "peer": "reply"})
    for _ in range(3):
        o = rand_op(rng)
        o["pdu"] = good_reply(rng, o)
        steps.append(o)
    c = rand_op(rng)
    c["peer"] = "close"
    steps.append(c)
    for _ in range(2):
        o = rand_op(rng)
        o["pdu"] = good_reply(rng, o)
        steps.append(o)
    c = rand_op(rng)
    c["peer"] = "reset"
    steps.append(c)
    for _ in range(2):
        o = rand_op(rng)
        o["pdu"] = good_reply(rng, o)
        steps.append(o)
    steps.append({"op": "disable"})
    for _ in range(2):
        o = rand_op(rng)
        o["peer"] = "noconn"
        steps.append(o)
    steps.append({"op": "destroy"})
    for _ in range(2):
        steps.append(rand_op(rng))
    scs.append({"id": len(scs), "kind": "client_ops", "queue": 4, "steps": steps, "tag": "c18-connection-states"})
    return scs


# ------------------------------------------------------------------ C19
def gen_db_seq(rng, n, thorough=False):
    scs = []
    for k in range(n):
        steps = []
        for _ in range(rng.randint(4, 25)):
            if rng.random() < 0.6:
                ops = []
                for _ in range(rng.randint(1, 8)):
                    ops.append({"op": rng.choice(["add", "add", "update", "delete", "get"]), "t": rng.randrange(4),
                                "idx": rng.choice([0, 1, 2, 3, 4, 5, 65535]), "value": rng.choice([0, 1, 2, 0xABCD, 65535])})
                steps.append({"op": "txn", "unit": 1, "ops": ops})
            else:
                fc = rng.choice([1, 2, 3, 4])
                s = rng.choice([0, 1, 2, 4, 65534, 65535])
                c = rng.randint(1, min(6, 65536 - s))
                steps.append({"op": "read", "unit": 1, "pdu": req_read(fc, s, c)})
        steps.append({"op": "read", "unit": 1, "pdu": req_wsr(1, 5)})
        steps.append({"op": "read", "unit": 1, "pdu": req_read(3, 0, 0)})
        scs.append({"id": k, "kind": "db_seq", "steps": steps, "tag": "c19-db-seq"})
    return scs


def gen_db_stress(thorough=False):
    """every point type has its own read path in the server: all four are read while transactions rewrite the block"""
    ms = 10000 if thorough else 1500
    out = []
    for pt, name, block, w, r in ((2, "holding-registers", 125, 3, 3), (0, "coils", 2000, 2, 4),
                                  (3, "input-registers", 125, 3, 3), (1, "discrete-inputs", 2000, 2, 4)):
        out.append({"id": 9000 + pt, "kind": "db_stress", "writers": w, "readers": r, "millis": ms, "block": block, "pt": pt,
                    "tag": f"c19-stress-{block}-{name}"})
    out.append({"id": 9100, "kind": "db_add_race", "block": 20000 if thorough else 3000, "tag": "c19-two-transactions-add-the-same-index"})
    return out


# ------------------------------------------------------------------ runner
def run_scripts(scs, workdir, name="e5"):
    os.makedirs(workdir, exist_ok=True)
    sp = os.path.join(workdir, f"{name}.scripts.ndjson")
    tp = os.path.join(workdir, f"{name}.trace.ndjson")
    with open(sp, "w") as f:
        for s in scs:
            f.write(json.dumps(s) + "\n")
    rc, out = vf.sh([vf.harness_bin("e5_ffi"), sp, tp], timeout=3600)
    if rc not in (0, 3):
        raise vf.ToolError(f"e5_ffi failed rc={rc}:\n{out[-3000:]}")
    return sp, tp, rc


def check_scripts(res, scs, workdir, name):
    by_id = {s["id"]: s for s in scs}
    sp, tp, rc = run_scripts(scs, workdir, name)
    stats, rejs = vf.validate_trace(MODULE, CFG, tp, workdir, boundary='"e":"ffi_cfg"')
    res.add_trace_stats(name, stats, {"harness_exit": rc})
    for s in scs:
        steps = s.get("steps", [])
        res.evaluations += max(1, len(steps))
        for st in steps:
            res.distinct.add(vf.sha(json.dumps(st)))
    return [(by_id.get(r["scenario_head"].get("id")), r) for r in rejs]


def describe_rejection(sc, r):
    ev = r["unmatched_event"]
    return (f"scenario {sc['id'] if sc else '?'} ({sc.get('tag') if sc else ''}): event #{r['line_in_scenario']} {json.dumps(ev)[:350]} "
            f"is not what FfiTrace.tla allows in state {json.dumps(r['spec_state'])[:300]}; preceding: "
            + " | ".join(json.dumps(x)[:160] for x in r["matched_prefix_tail"][-3:]))


def replay_obj(pid, sc, r):
    # keep the replay small: the scenario up to the failing request
    return {"property": pid, "engine": "e5", "scenario": sc,
            "rejection": {k: r[k] for k in ("line_in_scenario", "unmatched_event", "spec_state", "invariant", "matched_prefix_tail")},
            "trace": r["scenario_trace"][: r["line_in_scenario"] + 3]}
