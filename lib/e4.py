"""Engine E4: TCP / TLS server task over loopback (black-box + hook events). Generators + runner."""
import json
import os
import random

import vf
from mb import *

MODULE = "ServerTaskTrace.tla"
CFG = "ServerTaskTrace.cfg"

SRCS4 = ["127.0.0.1", "127.0.0.2", "127.1.2.3", "127.255.255.254", "127.0.1.2", "127.9.0.2"]


def scenario(sid, steps, variant="tcp", api="rust", max_sessions=2, listen="127.0.0.1", filt=None, units=(1, 2), seed=3,
             mode="ca", min_tls="1.2", server_cert="server", peer_cert="ca1", auth=None, tag=""):
    return {"id": sid, "variant": variant, "api": api, "mode": mode, "min_tls": min_tls, "server_cert": server_cert,
            "peer_cert": peer_cert, "max_sessions": max_sessions, "listen": listen, "filter": filt or {"kind": "any"},
            "units": list(units), "seed": seed, "auth": auth, "steps": steps, "tag": tag}


def conn(c, src="127.0.0.1", tls=None, silent=False):
    d = {"op": "connect", "c": c, "src": src, "silent": silent}
    if tls:
        d["tls"] = tls
    return d


def req(c, pdu, unit=1):
    return {"op": "req", "c": c, "unit": unit, "pdu": list(pdu)}


def close(c):
    return {"op": "close", "c": c}


def garbage(c, rng):
    b = rng.choice([[0, 0, 0, 9, 0, 0, 0, 0], [0, 1, 0, 0, 0, 0, 1], [9, 9, 0, 0, 1, 0, 1, 3], [0, 0, 255, 255, 0, 6, 1, 3, 0, 0, 0, 1]])
    return {"op": "send", "c": c, "bytes": b}


def partial(c):
    return {"op": "partial", "c": c, "bytes": [0, 5, 0]}


def rand_req(rng, c, units):
    u = rng.choice(list(units))
    k = rng.random()
    if k < 0.4:
        return req(c, req_read(rng.choice([1, 2, 3, 4]), rng.randrange(20), rng.randint(1, 8)), u)
    if k < 0.6:
        return req(c, req_wsr(rng.randrange(20), rng.randrange(65536)), u)
    if k < 0.75:
        return req(c, req_wsc(rng.randrange(20), rng.random() < 0.5), u)
    if k < 0.9:
        return req(c, req_wmr(rng.randrange(20), [rng.randrange(65536) for _ in range(rng.randint(1, 4))]), u)
    return req(c, [0x2B, 1], u)


# ------------------------------------------------------------------ C15
def gen_c15(rng, n, thorough=False):
    scs = []
    for k in range(n):
        maxs = rng.choice([0, 1, 1, 2, 2, 3])
        units = (1, 2)
        steps = []
        live = []
        stalled = set()
        nextc = 0
        ended = False
        for _ in range(rng.randint(4, 22 if thorough else 14)):
            x = rng.random()
            if x < 0.35 and nextc < 40:
                steps.append(conn(nextc, rng.choice(SRCS4)))
                live.append(nextc)
                nextc += 1
                cap = max(1, maxs)
                if len(live) > cap:
                    live.pop(0)
            elif x < 0.65 and [c for c in live if c not in stalled]:
                steps.append(rand_req(rng, rng.choice([c for c in live if c not in stalled]), units))
            elif x < 0.73 and live:
                c = rng.choice(live)
                live.remove(c)
                steps.append(close(c))
            elif x < 0.81 and [c for c in live if c not in stalled]:
                c = rng.choice([c for c in live if c not in stalled])
                live.remove(c)
                steps.append(garbage(c, rng))
            elif x < 0.86 and [c for c in live if c not in stalled]:
                # a half frame: the connection keeps its slot but is not used for anything else any more
                c = rng.choice([c for c in live if c not in stalled])
                steps.append(partial(c))
                stalled.add(c)
            elif x < 0.92:
                steps.append({"op": "decode", "level": [rng.randrange(4), rng.randrange(3), rng.randrange(3)]})
            elif x < 0.96 and not ended:
                steps.append({"op": rng.choice(["shutdown", "drop"])})
                steps.append(conn(nextc))
                nextc += 1
                ended = True
                break
        # every surviving connection must still be served (isolation), then the end closes them all
        if not ended:
            for c in live:
                if c not in stalled:
                    steps.append(req(c, req_read(3, 0, 2), 1))
            steps.append({"op": rng.choice(["shutdown", "drop"])})
            steps.append(conn(nextc))
        scs.append(scenario(k, steps, max_sessions=maxs, tag="c15-random"))
    # age order survives sessions that end by themselves: after some peers have closed and the free slots were refilled, a
    # connection over the limit still evicts the OLDEST remaining session (and then the next oldest)
    for maxs in (3, 4, 5):
        for closed in ([0], [1], [0, 2], [maxs - 2]):
            steps = [conn(c, SRCS4[c % len(SRCS4)]) for c in range(maxs)]
            for c in closed:
                steps.append(close(c))
            nxt = maxs
            for _ in closed:
                steps.append(conn(nxt))
                nxt += 1
            alive = [c for c in range(maxs) if c not in closed] + list(range(maxs, nxt))
            for _ in range(2):
                steps.append(conn(nxt))
                alive.pop(0)
                alive.append(nxt)
                nxt += 1
                for c in alive:
                    steps.append(req(c, req_read(3, 0, 1), 1))
            steps.append({"op": "shutdown"})
            scs.append(scenario(len(scs), steps, max_sessions=maxs, tag=f"c15-oldest-after-self-close-max{maxs}-closed{closed}"))
    # many sessions end in the same instant (more than the close-notification queue holds): none of them may keep
    # occupying a slot -- afterwards new connections up to the limit must not evict a healthy session
    for nclose in ((9, 14, 30) if thorough else (12, 30)):
        maxs = nclose + 4
        steps = [conn(c, SRCS4[c % 2]) for c in range(nclose + 2)]
        steps.append(req(0, req_read(3, 0, 1), 1))
        steps.append({"op": "close_many", "cs": list(range(2, nclose + 2))})
        for c in range(nclose + 2, nclose + 2 + maxs - 2):
            steps.append(conn(c, SRCS4[c % 2]))
        steps.append(req(0, req_read(3, 0, 1), 1))
        steps.append(req(1, req_read(3, 0, 1), 1))
        steps.append({"op": "shutdown"})
        scs.append(scenario(len(scs), steps, max_sessions=maxs, tag=f"c15-burst-close{nclose}"))
        # the same on a current-thread runtime: all the sessions that see their peer go away in one turn of the reactor run
        # before the server task does, so their close notifications really arrive as one burst
        sc1 = scenario(len(scs), [dict(x) for x in steps], max_sessions=maxs, tag=f"c15-burst-close{nclose}-current-thread")
        sc1["rt"] = "current"
        scs.append(sc1)
    # a peer that never reads its replies blocks its own session in the write; a burst of decode-level changes,
    # requests on other connections, new connections and the shutdown must still be served
    for burst in ((0, 3, 9, 12, 20) if thorough else (3, 12)):
        steps = [conn(0), conn(1, "127.0.0.2"), req(1, req_read(3, 0, 2), 1), {"op": "flood", "c": 0, "unit": 1}]
        steps += [{"op": "decode", "level": [1, 1, 1]}] * burst
        steps += [req(1, req_read(3, 0, 2), 1), conn(2, "127.1.2.3"), req(2, req_wsr(1, 9), 1), {"op": rng.choice(["shutdown", "drop"])}, conn(5)]
        scs.append(scenario(len(scs), steps, max_sessions=4, tag=f"c15-blocked-writer-decode-burst{burst}"))
    # the limit itself: max+2 connections in a row, the oldest leaves each time
    for maxs in (0, 1, 2, 3):
        steps = []
        for c in range(max(1, maxs) + 3):
            steps.append(conn(c, SRCS4[c % len(SRCS4)]))
            steps.append(req(c, req_read(3, 0, 1), 1))
        steps.append({"op": "shutdown"})
        steps.append(conn(9))
        scs.append(scenario(len(scs), steps, max_sessions=maxs, tag=f"c15-limit{maxs}"))
    return scs


def hostile_header(rng):
    """bytes whose first MBAP header is malformed (foreign protocol id, or a length of 0 / beyond 254), with a random tail"""
    tx = [rng.randrange(256), rng.randrange(256)]
    if rng.random() < 0.5:
        head = tx + [rng.randrange(1, 256) if rng.random() < 0.5 else 0, rng.randrange(1, 256)] + [rng.randrange(256), rng.randrange(256)]
        if head[2] == 0 and head[3] == 0:
            head[3] = 1
    else:
        ln = rng.choice([0, 255, 256, 300, 4096, 65535, rng.randrange(255, 65536)])
        head = tx + [0, 0, ln >> 8, ln & 255]
    return head + [rng.randrange(256) for _ in range(rng.choice([1, 2, 6, 30, 300, 1200]))]


def gen_c07_isolation(rng, n, thorough=False):
    """hostile bytes on one session of a real server task (TCP and TLS): that session ends, every other session, new
    connections, level changes and the final shutdown are served as if nothing had happened"""
    scs = []
    ok = {"cert": "client_operator", "versions": ["1.2", "1.3"]}
    for k in range(n):
        variant = rng.choice(["tcp", "tcp", "tls", "tls_authz"]) if thorough or k % 3 == 0 else "tcp"
        tls = ok if variant != "tcp" else None
        victims = rng.randint(1, 3)
        others = rng.randint(1, 2)
        total = victims + others
        steps = [conn(c, rng.choice(SRCS4) if not tls else "127.0.0.1", tls=tls) for c in range(total)]
        for c in range(victims, total):
            steps.append(rand_req(rng, c, (1, 2)))
        order = list(range(victims))
        rng.shuffle(order)
        for c in order:
            if rng.random() < 0.3:
                steps.append(rand_req(rng, c, (1, 2)))
            steps.append({"op": "send", "c": c, "bytes": hostile_header(rng)})
            if rng.random() < 0.4:
                steps.append({"op": "decode", "level": [rng.randrange(4), rng.randrange(3), rng.randrange(3)]})
            steps.append(rand_req(rng, rng.randrange(victims, total), (1, 2)))
        steps.append(conn(total, "127.0.0.1", tls=tls))
        steps.append(req(total, req_read(3, 0, 2), 1))
        for c in range(victims, total):
            steps.append(req(c, req_read(3, 0, 2), 1))
        steps.append({"op": rng.choice(["shutdown", "drop"])})
        steps.append(conn(total + 1))
        scs.append(scenario(k, steps, variant=variant, max_sessions=total + 2, auth="allow" if variant == "tls_authz" else None,
                            tag=f"c07-hostile-bytes-on-{victims}-of-{total}-sessions-{variant}"))
    return scs


def gen_c15_tls(rng):
    """TLS servers: sessions that stall in the handshake occupy a slot; eviction and shutdown must close them too"""
    scs = []
    ok = {"cert": "client_operator", "versions": ["1.2", "1.3"]}
    for variant in ("tls", "tls_authz"):
        steps = [conn(0, tls=ok), req(0, req_read(3, 0, 1)), conn(1, tls=ok), req(1, req_read(3, 0, 1)), conn(2, tls=ok),
                 req(2, req_read(3, 0, 1)), {"op": "shutdown"}, conn(3)]
        scs.append(scenario(len(scs), steps, variant=variant, max_sessions=2, tag=f"c15-{variant}-evict"))
        steps = [conn(0, silent=True), conn(1, tls=ok), req(1, req_read(3, 0, 1)), {"op": "shutdown"}, conn(3)]
        scs.append(scenario(len(scs), steps, variant=variant, max_sessions=2, tag=f"c15-{variant}-silent-shutdown"))
        # a decode-level change while a peer is stalled in the handshake must not stop that session from seeing
        # its eviction / the shutdown
        dec = {"op": "decode", "level": [3, 2, 2]}
        steps = [conn(0, silent=True), dec, conn(1, tls=ok), req(1, req_read(3, 0, 1)), {"op": "shutdown"}, conn(3)]
        scs.append(scenario(len(scs), steps, variant=variant, max_sessions=2, tag=f"c15-{variant}-silent-decode-shutdown"))
        steps = [conn(0, silent=True), dec, dec, conn(1, tls=ok), req(1, req_read(3, 0, 1)), {"op": "drop"}]
        scs.append(scenario(len(scs), steps, variant=variant, max_sessions=1, tag=f"c15-{variant}-silent-decode-evict"))
        steps = [conn(0, silent=True), conn(1, tls=ok), req(1, req_read(3, 0, 1)), close(0), conn(2, tls=ok), {"op": "drop"}]
        scs.append(scenario(len(scs), steps, variant=variant, max_sessions=1, tag=f"c15-{variant}-silent-evict"))
    return scs


# ------------------------------------------------------------------ C16
def addr_octets(a):
    return [int(x) for x in a.split(".")]


def filters(rng, thorough=False):
    fs = [{"kind": "any"},
          {"kind": "exact", "addrs": ["127.0.0.2"]},
          {"kind": "exact", "addrs": ["127.0.0.1"]},
          {"kind": "exact", "addrs": ["::1"]},
          {"kind": "anyof", "addrs": ["127.0.0.2", "127.1.2.3"]},
          {"kind": "anyof", "addrs": ["127.255.255.254", "::1", "10.0.0.1"]}]
    lattice = [[127, -1, -1, -1], [127, 0, 0, -1], [-1, 0, 0, 2], [127, -1, 0, 2], [-1, -1, -1, -1], [127, 0, 0, 2], [127, 1, 2, 3],
               [-1, -1, -1, 2], [127, 255, 255, 254], [128, -1, -1, -1], [127, -1, 2, -1], [-1, 0, -1, 1], [127, 9, 0, -1],
               [0, -1, -1, -1], [255, 255, 255, 255], [127, 0, 1, -1]]
    if thorough:
        for _ in range(30):
            lattice.append([rng.choice([-1, 127, 0, 1, 2, 9, 254, 255]) for _ in range(4)])
    for f in lattice:
        fs.append({"kind": "wildcard", "fields": f})
    return fs


def gen_c16(rng, thorough=False):
    scs = []
    ok = {"cert": "client_operator", "versions": ["1.2", "1.3"]}
    variants = [("tcp", "rust"), ("tcp", "cabi"), ("tls", "rust"), ("tls", "cabi"), ("tls_authz", "rust"), ("tls_authz", "cabi")]
    for filt in filters(rng, thorough):
        for variant, api in variants:
            if not thorough and variant != "tcp" and rng.random() < 0.55:
                continue
            if api == "cabi" and filt["kind"] == "exact" and ":" in filt["addrs"][0] and False:
                continue
            steps = []
            c = 0
            for src in SRCS4:
                steps.append(conn(c, src, tls=ok if variant != "tcp" else None))
                steps.append(req(c, req_read(3, 0, 1), 1))
                steps.append(close(c))
                c += 1
            scs.append(scenario(len(scs), steps, variant=variant, api=api, max_sessions=4, filt=filt, units=(1,),
                                tag=f"c16-{variant}-{api}-{filt['kind']}"))
    # IPv6 loopback listener and source
    for filt in ({"kind": "any"}, {"kind": "exact", "addrs": ["::1"]}, {"kind": "exact", "addrs": ["127.0.0.1"]},
                 {"kind": "wildcard", "fields": [-1, -1, -1, -1]}, {"kind": "anyof", "addrs": ["::1", "127.0.0.1"]}):
        for api in ("rust", "cabi"):
            steps = [conn(0, "::1"), req(0, req_read(3, 0, 1), 1), close(0)]
            scs.append(scenario(len(scs), steps, api=api, listen="::1", filt=filt, units=(1,), tag=f"c16-v6-{api}-{filt['kind']}"))
    return scs


# ------------------------------------------------------------------ C09 (server role)
CLIENT_CERTS = ["client_operator", "client_viewer", "client_norole", "client_tworoles", "client_ca2_operator",
                "client_expired", "client_notyet", "ss_a", "ss_b", "ss_c", "ss_expired", None]
VERSION_SETS = [["1.2"], ["1.3"], ["1.2", "1.3"]]


def gen_c09_server(rng, thorough=False):
    scs = []
    grid = []
    for mode, trust in (("ca", "ca1"), ("ca", "ca2"), ("self", "ss_a"), ("self", "ss_expired")):
        for min_tls in ("1.2", "1.3"):
            for variant in ("tls", "tls_authz"):
                grid.append((mode, trust, min_tls, variant))
    for (mode, trust, min_tls, variant) in grid:
        for api in (("rust", "cabi") if thorough else ("rust",) + (("cabi",) if rng.random() < 0.25 else ())):
            steps = []
            c = 0
            for cert in CLIENT_CERTS:
                for vs in VERSION_SETS:
                    steps.append(conn(c, tls={"cert": cert, "versions": vs}))
                    # Modbus on an established connection works; nothing is processed otherwise
                    steps.append(req(c, req_read(3, 0, 1), 1))
                    steps.append(close(c))
                    c += 1
            server_cert = "server" if mode == "ca" else "ss_b"
            scs.append(scenario(len(scs), steps, variant=variant, api=api, max_sessions=3, units=(1,), mode=mode, min_tls=min_tls,
                                server_cert=server_cert, peer_cert=trust, auth="allow",
                                tag=f"c09-{mode}-{trust}-min{min_tls}-{variant}-{api}"))
    # the role reaches the authorization handler unchanged
    for cert in ("client_operator", "client_viewer", "client_mixedcase"):
        steps = [conn(0, tls={"cert": cert, "versions": ["1.2", "1.3"]}), req(0, req_read(3, 0, 2), 1), req(0, req_wsr(1, 5), 1),
                 req(0, req_wmc(1, [True, False]), 2), close(0)]
        scs.append(scenario(len(scs), steps, variant="tls_authz", max_sessions=2, auth="hash", tag=f"c09-role-{cert}"))
    # a peer may present its whole chain (its own certificate first, then the issuer's): identity and role are those of the
    # FIRST certificate, and a valid peer is admitted whether or not it sends the chain
    for variant in ("tls", "tls_authz"):
        for cert in ("client_operator", "client_viewer", "client_norole"):
            steps = [conn(0, tls={"cert": cert, "versions": ["1.2", "1.3"], "chain": ["ca1"]}), req(0, req_read(3, 0, 2), 1),
                     req(0, req_wsr(1, 5), 1), close(0)]
            scs.append(scenario(len(scs), steps, variant=variant, max_sessions=2, auth="hash" if variant == "tls_authz" else None,
                                tag=f"c09-chain-presented-{variant}-{cert}"))
    return scs


# ------------------------------------------------------------------ spec -> impl: behaviours of ServerTask_MC simulated by TLC
def sim_scripts(workdir, num, seed, max_sessions=2):
    """environment moves of behaviours chosen by TLC's simulation of ServerTask_MC, as e4 scripts: a connection arriving, a
    peer that stops reading, a peer closing, level changes, shutdown / handle drop; requests are added on connections
    that must still be served so that isolation and eviction are observed at every point of the model's interleaving"""
    import re
    import subprocess
    import shutil
    cfg = os.path.join(workdir, "sim_servertask.cfg")
    os.makedirs(workdir, exist_ok=True)
    vf.write_cfg(cfg, "SimSpec", {"MaxSessions": max_sessions, "MaxConns": 7, "QCap": 8, "SCap": 8, "CCap": 8, "MaxDecodes": 14, "MaxCloses": 3,
                                  "FanOut": '"try"', "Moves": 11}, extra=["ACTION_CONSTRAINT PrintScript"])
    md = os.path.join(workdir, "simmd_servertask")
    env = dict(os.environ)
    env["JAVA_TOOL_OPTIONS"] = "-Xss64m -Xmx4g"
    p = subprocess.run(["tlc", "-workers", "1", "-seed", str(seed), "-simulate", f"num={num}", "-depth", "150", "-metadir", md, "-cleanup",
                        "-noGenerateSpecTE", "-config", cfg, "ServerTask_Sim.tla"], cwd=vf.SPEC, env=env, stdout=subprocess.PIPE,
                       stderr=subprocess.STDOUT, text=True, timeout=900)
    shutil.rmtree(md, ignore_errors=True)
    rng = random.Random(seed)
    scs = []
    seen = set()
    cap = max(1, max_sessions)
    for m in re.finditer(r'<<"SCRIPT", "(.*)">>', p.stdout):
        raw = bytes(m.group(1), "utf-8").decode("unicode_escape")
        if raw in seen:
            continue
        seen.add(raw)
        steps = []
        live = []
        blocked = set()
        ids = {}
        ended = False
        for mv in json.loads(raw):
            o = mv["op"]
            if o == "conn":
                c = len(ids)
                ids[mv["c"]] = c
                steps.append(conn(c, rng.choice(SRCS4)))
                live.append(c)
                if len(live) > cap:
                    live.pop(0)
                steps.append(rand_req(rng, c, (1, 2)))
            elif o == "flood":
                c = ids.get(mv["c"])
                if c in live and c not in blocked:
                    steps.append({"op": "flood", "c": c, "unit": 1})
                    blocked.add(c)
            elif o == "close":
                c = ids.get(mv["c"])
                if c in live and c not in blocked:
                    live.remove(c)
                    steps.append(close(c))
            elif o == "decode":
                steps.append({"op": "decode", "level": [rng.randrange(4), rng.randrange(3), rng.randrange(3)]})
            elif o in ("shutdown", "drop"):
                steps.append({"op": o})
                steps.append(conn(len(ids)))
                ended = True
                break
            ok = [c for c in live if c not in blocked]
            if ok and rng.random() < 0.5:
                steps.append(rand_req(rng, rng.choice(ok), (1, 2)))
        if not ended:
            for c in live:
                if c not in blocked:
                    steps.append(req(c, req_read(3, 0, 2), 1))
            steps.append({"op": rng.choice(["shutdown", "drop"])})
            steps.append(conn(len(ids)))
        scs.append(scenario(len(scs), steps, max_sessions=max_sessions, tag="tlc-simulated-servertask"))
    if not scs:
        raise vf.ToolError("TLC simulation of ServerTask_Sim printed no script:\n" + p.stdout[-2000:])
    return scs


# ------------------------------------------------------------------ runner
def run_scripts(scs, workdir, name="e4"):
    os.makedirs(workdir, exist_ok=True)
    sp = os.path.join(workdir, f"{name}.scripts.ndjson")
    tp = os.path.join(workdir, f"{name}.trace.ndjson")
    with open(sp, "w") as f:
        for s in scs:
            f.write(json.dumps(s) + "\n")
    rc, out = vf.sh([vf.harness_bin("e4_server"), sp, tp], timeout=3600)
    if rc not in (0, 3):
        raise vf.ToolError(f"e4_server failed rc={rc}:\n{out[-3000:]}")
    return sp, tp, rc


def check_scripts(res, scs, workdir, name):
    by_id = {s["id"]: s for s in scs}
    sp, tp, rc = run_scripts(scs, workdir, name)
    stats, rejs = vf.validate_trace(MODULE, CFG, tp, workdir, boundary='_cfg"')
    res.add_trace_stats(name, stats, {"harness_exit": rc})
    res.evaluations += len(scs)
    for s in scs:
        if s["variant"] == "wild":
            for st in s["steps"]:
                res.distinct.add("w" + vf.sha(json.dumps(st)))
            continue
        res.distinct.add(vf.sha(json.dumps(s["steps"])[:6000] + json.dumps(s["filter"]) + s["variant"] + s["api"] + str(s["max_sessions"])))
    return [(by_id.get(r["scenario_head"].get("id")), r) for r in rejs]


def describe_rejection(sc, r):
    ev = r["unmatched_event"]
    return (f"scenario {sc['id'] if sc else '?'} ({sc.get('tag') if sc else ''}, max_sessions={sc['max_sessions'] if sc else '?'}, "
            f"filter={json.dumps(sc['filter']) if sc else ''}): event #{r['line_in_scenario']} {json.dumps(ev)[:300]} is not what the "
            f"specification allows in state {json.dumps(r['spec_state'])[:400]}; preceding: "
            + " | ".join(json.dumps(x)[:110] for x in r["matched_prefix_tail"][-3:])
            + (f" [invariant {r['invariant']}]" if r.get("invariant") else ""))


def replay_obj(pid, sc, r):
    return {"property": pid, "engine": "e4", "scenario": sc,
            "rejection": {k: r[k] for k in ("line_in_scenario", "unmatched_event", "spec_state", "invariant", "matched_prefix_tail")},
            "trace": r["scenario_trace"]}


# ------------------------------------------------------------------ C16: wildcard strings
def gen_wildcards(rng, n):
    """field tuples: each field is a list of one-character strings"""
    good = ["*", "0", "1", "9", "10", "99", "100", "127", "199", "200", "249", "250", "254", "255"]
    odd = ["", "256", "260", "300", "999", "1000", "00", "000", "007", "0255", "+1", "+255", "-1", "-0", " 1", "1 ", "**", "*1", "1*", "a",
           "1a", "0x1", "1e1", "١", "1.", "٣", "65536", "4294967297", "00000000001", "2 5", "25\t", "*.", "٠"]
    out = []
    for _ in range(n):
        k = rng.choice([4, 4, 4, 4, 4, 3, 5, 1, 0, 2, 6])
        fields = []
        for _ in range(k):
            f = rng.choice(good) if rng.random() < 0.75 else rng.choice(odd)
            fields.append(list(f))
        out.append({"op": "wild", "fields": fields})
    # every single odd field in every position with otherwise valid fields
    for o in odd:
        for pos in range(4):
            f = [list("127"), list("*"), list("0"), list("255")]
            f[pos] = list(o)
            out.append({"op": "wild", "fields": f})
    scs = []
    for i in range(0, len(out), 400):
        scs.append(scenario(90000 + i, out[i:i + 400], variant="wild", tag="c16-wildcard-strings"))
    return scs


# ------------------------------------------------------------------ C20 at the server task
def gen_c20_server(rng, thorough=False):
    """bursts of set_decode_level while a session is busy inside a slow handler: the outstanding transaction completes
    and the connection (and every other one) stays usable"""
    scs = []
    for burst in ((3, 8, 9, 12, 17) if thorough else (3, 9, 12)):
        for others in (0, 1):
            steps = [conn(0)]
            if others:
                steps += [conn(1, "127.0.0.2"), req(1, req_read(3, 0, 2), 1)]
            steps.append({"op": "req_start", "c": 0, "unit": 1, "pdu": req_read(3, 9998, 3)})
            for _ in range(burst):
                steps.append({"op": "decode", "level": [rng.randrange(4), rng.randrange(3), rng.randrange(3)]})
            # while that session is still busy (its queue may be full by now) the server task goes on accepting
            steps.append(conn(7, "127.1.2.3"))
            steps.append({"op": "rsp_wait", "c": 0})
            steps.append(req(7, req_read(3, 0, 2), 2))
            steps.append(req(0, req_read(3, 0, 2), 1))
            if others:
                steps.append(req(1, req_wsr(3, 7), 1))
            steps.append(req(0, req_read(3, 3, 1), 1))
            steps.append({"op": "shutdown"})
            scs.append(scenario(len(scs), steps, max_sessions=3, tag=f"c20-server-burst{burst}"))
    return scs


def gen_c08_tls(rng):
    """authorization on a real TLS server: the role comes from the client certificate; a trusted certificate WITHOUT a role
    is not served at all (it must not end up in a session that runs without authorization), a certificate with a role has
    every request submitted to the handler under that role, and denied writes are not executed (read-back)"""
    scs = []
    v = ["1.2", "1.3"]
    for policy in ("hash", "deny"):
        steps = [conn(0, tls={"cert": "client_norole", "versions": v}), conn(1, tls={"cert": "client_viewer", "versions": v})]
        for k in range(6):
            w = req_wsr(k, 1000 + k)
            steps += [req(1, w, 1), req(1, req_read(3, k, 1), 1)]
        steps += [conn(2, tls={"cert": "client_norole", "versions": ["1.3"]}), conn(3, tls={"cert": "client_operator", "versions": v}),
                  req(3, req_wmc(2, [True, True, False]), 2), req(3, req_read(1, 2, 3), 2), close(3), close(1)]
        scs.append(scenario(len(scs), steps, variant="tls_authz", max_sessions=4, auth=policy, tag=f"c08-tls-roles-{policy}"))
    return scs


# ------------------------------------------------------------------ C09 (client role)
SERVER_CERTS = ["server", "server_othername", "server_cnonly", "server_ca2", "server_expired", "server_notyet", "ss_a", "ss_b", "ss_expired"]


def gen_c09_client(rng, thorough=False):
    scs = []
    grid = [("ca", "ca1", "test.com"), ("ca", "ca1", None), ("ca", "ca1", "other.example"), ("ca", "ca2", "test.com"),
            # an expected name may also be an IP literal: it is verified like any other name (no fixture certificate is valid for one)
            ("ca", "ca1", "127.0.0.1"), ("ca", "ca1", "::1"),
            ("self", "ss_a", None), ("self", "ss_expired", None)]
    for (mode, trust, name) in grid:
        for min_tls in ("1.2", "1.3"):
            steps = []
            for cert in SERVER_CERTS:
                for vs in VERSION_SETS:
                    steps.append({"op": "tlsc", "tls": {"cert": cert, "versions": vs}})
            sc = scenario(len(scs), steps, variant="tls_client", mode=mode, min_tls=min_tls, peer_cert=trust,
                          tag=f"c09-client-{mode}-{trust}-{name}-min{min_tls}")
            sc["name"] = name
            sc["local_cert"] = "client_operator" if mode == "ca" else "ss_b"
            scs.append(sc)
            # the deprecated constructor TlsClientConfig::new(name, .., certificate_mode) must mean the same
            if name is not None or mode == "self":
                lg = json.loads(json.dumps(sc))
                lg["ctor"] = "legacy"
                lg["tag"] += "-legacy-constructor"
                lg["id"] = len(scs)
                if not thorough:
                    lg["steps"] = lg["steps"][::2] if min_tls == "1.2" else lg["steps"][1::2]
                scs.append(lg)
    return scs


def gen_cabi_tls_client(rng, thorough=False):
    """the TLS client channel created through the C ABI: dns_name / allow_server_name_wildcard / certificate mode / minimum
    version must mean what the Rust configuration means (name verification is off only for wildcard flag AND name "*")"""
    scs = []
    grid = [("ca", "ca1", "test.com", False), ("ca", "ca1", "test.com", True), ("ca", "ca1", "other.example", False),
            ("ca", "ca1", "other.example", True), ("ca", "ca1", "*", True), ("ca", "ca2", "test.com", True),
            ("ca", "ca1", "127.0.0.1", True),
            ("self", "ss_a", "ignored.example", False), ("self", "ss_a", "*", True)]
    certs = SERVER_CERTS if thorough else ["server", "server_othername", "server_ca2", "ss_a", "ss_b"]
    for (mode, trust, dns, wildcard) in grid:
        for min_tls in ("1.2", "1.3"):
            steps = []
            for cert in certs:
                for vs in (VERSION_SETS if thorough else VERSION_SETS[:2]):
                    steps.append({"op": "tlsc", "tls": {"cert": cert, "versions": vs}})
            sc = scenario(len(scs), steps, variant="tls_client", mode=mode, min_tls=min_tls, peer_cert=trust, api="cabi",
                          tag=f"cabi-tls-client-{mode}-{trust}-{dns}-wildcard{wildcard}-min{min_tls}")
            sc["dns"] = dns
            sc["wildcard"] = wildcard
            sc["local_cert"] = "client_operator" if mode == "ca" else "ss_b"
            scs.append(sc)
    return scs


def gen_tcp_client_lifecycle():
    """black-box C13: shutdown / handle drop / disable handed in while the plain TCP channel task (real sockets, real connect)
    is held in each of its states"""
    steps = []
    for at, refuse, close in (("Disabled", False, 0), ("Connecting", False, 0), ("Connecting", True, 0), ("Connected", False, 0),
                              ("WaitAfterFailedConnect", True, 0), ("WaitAfterDisconnect", False, 1)):
        for cmd_ in ("shutdown", "drop", "disable"):
            steps.append({"op": "lc", "src": at, "cmd": cmd_, "silent": refuse, "c": close})
    sc = scenario(0, steps, variant="tcp_client", tag="c13-tcp-client-lifecycle-black-box")
    return [sc]


def gen_tls_client_stall():
    sc = scenario(0, [{"op": "tlsc", "silent": True}, {"op": "tlsc", "silent": True}], variant="tls_client", mode="ca", min_tls="1.2",
                  peer_cert="ca1", tag="tls-client-handshake-stall")
    sc["name"] = "test.com"
    sc["local_cert"] = "client_operator"
    return [sc]
