"""Engine E2: client request loop (verif::ClientSession).  Generators + runner + TLC validation."""
import json
import os

import vf
from mb import *

MODULE = "ClientTrace.tla"
CFG = "ClientTrace.cfg"
DECODES = [[a, f, p] for a in range(4) for f in range(3) for p in range(3)]


def scenario(sid, steps, framing="tcp", queue=16, max_timeouts=0, retry=(1000, 8000), decode=(0, 0, 0),
             mode="session", tag="", txid0=0):
    return {"id": sid, "mode": mode, "framing": framing, "queue": queue, "max_timeouts": max_timeouts,
            "retry": list(retry), "decode": list(decode), "steps": steps, "tag": tag, "txid0": txid0}


def cmd(kind, **kw):
    d = {"op": "cmd", "kind": kind}
    d.update(kw)
    return d


def submit(r, fc, unit=1, start=0, count=1, values=(), timeout=100, style="future"):
    return {"op": "submit", "r": r, "style": style, "fc": fc, "unit": unit, "start": start, "count": count,
            "values": list(values), "timeout": timeout}


def reply(pdu, unit=1, txrel=0, hold=False):
    d = {"op": "reply", "unit": unit, "pdu": list(pdu), "txrel": txrel}
    if hold:
        d["kind"] = "hold"
    return d


def deliver(n=0):
    return {"op": "deliver", "d": n}


def peer(b):
    return {"op": "peer", "bytes": list(b)}


def tick(d):
    return {"op": "tick", "d": d}


# ------------------------------------------------------------------ replies
def req_pdu(st):
    fc = st["fc"]
    if fc in (1, 2, 3, 4):
        return req_read(fc, st["start"] & 0xFFFF, st["count"] & 0xFFFF)
    if fc == 5:
        return req_wsc(st["start"], bool(st["values"][0]))
    if fc == 6:
        return req_wsr(st["start"], st["values"][0])
    if fc == 15:
        return req_wmc(st["start"], [bool(v) for v in st["values"]])
    return req_wmr(st["start"], st["values"])


def good_reply(rng, st):
    fc = st["fc"]
    if fc in (1, 2):
        bits = [rng.random() < 0.5 for _ in range(st["count"])]
        data = pack_bits(bits)
        return [fc, len(data) & 255] + data
    if fc in (3, 4):
        data = []
        for _ in range(st["count"]):
            data += u16(rng.randrange(65536))
        return [fc, len(data) & 255] + data
    return req_pdu(st)[:5]


def reply_variants(rng, st, thorough=False):
    """reply classes for one request: (name, pdu)"""
    fc = st["fc"]
    good = good_reply(rng, st)
    out = [("good", good)]
    # every other function byte
    fcs = range(256) if thorough else sorted(set([0, 1, 2, 3, 4, 5, 6, 15, 16, fc ^ 1, fc + 128, (fc + 129) % 256, 0x80, 0xFF]
                                                 + [rng.randrange(256) for _ in range(6)]))
    for f in fcs:
        if f != fc:
            out.append((f"fc={f}", [f] + good[1:]))
    # exception replies: all codes, truncated, with trailing bytes
    codes = range(256) if thorough else sorted(set([0, 1, 2, 3, 4, 5, 6, 7, 8, 9, 10, 11, 12, 0x80, 0xFF] + [rng.randrange(256) for _ in range(4)]))
    for c in codes:
        out.append((f"exc{c}", [fc + 128, c]))
    # the exception form of another (or of no) function is not an exception reply to this request
    for g in sorted(set([1, 2, 3, 4, 5, 6, 15, 16, 0, 0x2B, 0x7F]) - {fc}):
        out.append((f"foreign-exc-{g}", [g | 0x80, rng.choice([1, 2, 3, 4])]))
    out.append(("exc-short", [fc + 128]))
    out.append(("exc-long", [fc + 128, 2, 0]))
    out.append(("exc-long2", [fc + 128, 2, 1, 2, 3]))
    out.append(("empty", []))
    # truncations and extensions
    for n in sorted(set([1, 2, 3, len(good) - 2, len(good) - 1])):
        if 0 < n < len(good):
            out.append((f"trunc{n}", good[:n]))
    out.append(("ext1", good + [0]))
    out.append(("ext2", good + [0, 0]))
    if fc in (1, 2, 3, 4):
        # byte count field values with correct real length (named leniency), and data length +-1 with adjusted field
        for bc in (0, 1, good[1] ^ 1, 255):
            out.append((f"bytecount={bc}", [fc, bc] + good[2:]))
        out.append(("data-1", [fc, max(0, good[1] - 1)] + good[2:-1]))
        out.append(("data+1", [fc, (good[1] + 1) & 255] + good[2:] + [0]))
        if fc in (3, 4):
            out.append(("data+2", [fc, (good[1] + 2) & 255] + good[2:] + [0, 0]))
            out.append(("data-2", [fc, max(0, good[1] - 2)] + good[2:-2]))
        else:
            out.append(("data+8bits", [fc, (good[1] + 1) & 255] + good[2:] + [0xFF]))
    else:
        # echo variations
        for i in range(1, 5):
            for delta in (1, 0x80):
                e = list(good)
                e[i] = (e[i] + delta) & 255
                out.append((f"echo[{i}]+{delta}", e))
        if fc == 5:
            out.append(("coil-0x1234", good[:3] + [0x12, 0x34]))
            out.append(("coil-inverted", good[:3] + ([0, 0] if good[3] else [0xFF, 0])))
        if fc in (15, 16):
            out.append(("count0", good[:3] + [0, 0]))
            out.append(("count-overflow", [fc, 0xFF, 0xFF, 0, 2]))
    return out


# ------------------------------------------------------------------ requests
def rand_request(rng, r, small=True, timeout=100, style=None, unit=None):
    fc = rng.choice([1, 2, 3, 4, 5, 6, 15, 16])
    style = style or rng.choice(["future", "callback"])
    unit = rng.choice([0, 1, 2, 247, 255]) if unit is None else unit
    if fc in (1, 2):
        c = rng.choice([1, 7, 8, 9, 33]) if small else rng.choice([1, 1999, 2000])
        return submit(r, fc, unit, rng.choice([0, 9, 65536 - c]), c, (), timeout, style)
    if fc in (3, 4):
        c = rng.choice([1, 2, 10]) if small else rng.choice([1, 124, 125])
        return submit(r, fc, unit, rng.choice([0, 9, 65536 - c]), c, (), timeout, style)
    if fc == 5:
        return submit(r, fc, unit, rng.choice([0, 77, 65535]), 1, [rng.randrange(2)], timeout, style)
    if fc == 6:
        return submit(r, fc, unit, rng.choice([0, 77, 65535]), 1, [rng.randrange(65536)], timeout, style)
    if fc == 15:
        c = rng.choice([1, 8, 9, 20]) if small else rng.choice([1, 1967, 1968])
        return submit(r, fc, unit, rng.choice([0, 9, 65536 - c]), c, [rng.randrange(2) for _ in range(c)], timeout, style)
    c = rng.choice([1, 2, 9]) if small else rng.choice([1, 122, 123])
    return submit(r, fc, unit, rng.choice([0, 9, 65536 - c]), c, [rng.randrange(65536) for _ in range(c)], timeout, style)


def request_lattice(rng):
    """C03: the (kind, start, count / values-length) lattice, valid and invalid"""
    out = []
    r = 0

    def starts(c):
        return sorted(x for x in {0, 1, 65535 - c, 65536 - c, 65537 - c, 65535} if 0 <= x <= 65535)

    for fc in (1, 2):
        for c in (0, 1, 2, 8, 9, 1999, 2000, 2001, 2040, 65535):
            for s in starts(c):
                out.append(submit(0, fc, 1, s, c))
    for fc in (3, 4):
        for c in (0, 1, 2, 124, 125, 126, 127, 128, 255, 256, 65535):
            for s in starts(c):
                out.append(submit(0, fc, 1, s, c))
    for idx in (0, 1, 65534, 65535):
        for v in (0, 1):
            out.append(submit(0, 5, 1, idx, 1, [v]))
        for v in (0, 1, 0x1234, 0xFFFF):
            out.append(submit(0, 6, 1, idx, 1, [v]))
    for c in (0, 1, 7, 8, 9, 1967, 1968, 1969, 1976, 1977, 2000, 2040, 2041, 4000):
        for s in starts(c)[:6]:
            out.append(submit(0, 15, 1, s, c, [rng.randrange(2) for _ in range(c)]))
    for c in (0, 1, 2, 122, 123, 124, 125, 127, 128, 200, 300):
        for s in starts(c)[:6]:
            out.append(submit(0, 16, 1, s, c, [rng.randrange(65536) for _ in range(c)]))
    out.append(submit(0, 15, 1, 0, 65535, [1] * 65535))
    out.append(submit(0, 15, 1, 0, 65536, [0] * 65536))
    out.append(submit(0, 16, 1, 5, 65536, [7] * 65536))
    return out


# ------------------------------------------------------------------ runner
def run_scripts(scs, workdir, name="e2"):
    os.makedirs(workdir, exist_ok=True)
    sp = os.path.join(workdir, f"{name}.scripts.ndjson")
    tp = os.path.join(workdir, f"{name}.trace.ndjson")
    with open(sp, "w") as f:
        for s in scs:
            f.write(json.dumps(s) + "\n")
    rc, out = vf.sh([vf.harness_bin("e2_client"), sp, tp], timeout=3600)
    if rc not in (0, 3):
        raise vf.ToolError(f"e2_client failed rc={rc}:\n{out[-3000:]}")
    return sp, tp, rc


def check_scripts(res, scs, workdir, name):
    by_id = {s["id"]: s for s in scs}
    sp, tp, rc = run_scripts(scs, workdir, name)
    stats, rejs = vf.validate_trace(MODULE, CFG, tp, workdir)
    res.add_trace_stats(name, stats, {"harness_exit": rc})
    res.evaluations += len(scs)
    for s in scs:
        res.distinct.add(vf.sha(json.dumps(s["steps"])[:6000] + s["framing"] + str(s["queue"]) + str(s["max_timeouts"])))
    out = []
    for r in rejs:
        out.append((by_id.get(r["scenario_head"].get("id")), r))
    if rc == 3 and not rejs:
        raise vf.ToolError("harness watchdog fired but the trace validated")
    return out


def describe_rejection(sc, r):
    ev = r["unmatched_event"]
    return (f"scenario {sc['id'] if sc else '?'} ({sc.get('tag') if sc else ''}, {sc['framing'] if sc else ''}): "
            f"event #{r['line_in_scenario']} {json.dumps(ev)[:300]} is not a step the specification allows in state "
            f"{json.dumps(r['spec_state'])[:300]}; preceding events: "
            + " | ".join(json.dumps(x)[:120] for x in r["matched_prefix_tail"][-3:])
            + (f" [invariant {r['invariant']}]" if r.get("invariant") else ""))


def replay_obj(pid, sc, r):
    return {"property": pid, "engine": "e2", "scenario": sc,
            "rejection": {k: r[k] for k in ("line_in_scenario", "unmatched_event", "spec_state", "invariant",
                                            "matched_prefix_tail")},
            "trace": r["scenario_trace"]}


# ------------------------------------------------------------------ C03
def gen_c03(rng, thorough=False):
    lat = request_lattice(rng)
    if not thorough:
        big = [x for x in lat if len(x["values"]) > 5000]
        lat = [x for x in lat if len(x["values"]) <= 5000]
        rng.shuffle(lat)
        lat = lat[:260] + big[:1]
    scs = []
    for framing in ("tcp", "rtu"):
        for style in ("future", "callback"):
            items = list(lat)
            rng.shuffle(items)
            if not thorough:
                items = items[:len(items) // 2]
            for i in range(0, len(items), 10):
                steps = [cmd("enable")]
                for j, st in enumerate(items[i:i + 10]):
                    st = dict(st)
                    st["r"] = j + 1
                    st["style"] = style
                    st["unit"] = rng.choice([0, 1, 2, 17, 247, 248, 255])
                    steps.append(st)
                    valid_guess = st["count"] >= 1 and st["start"] + st["count"] <= 65536
                    if valid_guess and len(st["values"]) < 3000 and st["count"] <= 2000:
                        steps.append(reply(good_reply(rng, st), unit=st["unit"]))
                    steps.append(tick(100))
                scs.append(scenario(len(scs), steps, framing=framing, decode=rng.choice(DECODES), tag=f"c03-{style}"))
    # exactly ONE frame per request, whatever else arrives while it is outstanding: a stale reply (the late answer to a
    # timed-out predecessor), a reply with a future id, a partial frame
    for style in ("future", "callback"):
        for k in range(6 if thorough else 3):
            steps = [cmd("enable")]
            prev = None
            for r in range(1, 7):
                st = rand_request(rng, r, timeout=50, unit=1)
                st["style"] = style
                steps.append(st)
                how = rng.choice(["stale", "future", "timeout-then-late", "partial", "plain"]) if prev else "plain"
                if how == "stale":
                    steps.append(reply(good_reply(rng, prev), unit=1, txrel=-1))
                elif how == "future":
                    steps.append(reply(good_reply(rng, st), unit=1, txrel=3))
                elif how == "partial":
                    steps += [reply(good_reply(rng, st), unit=1, hold=True), deliver(4), tick(10), deliver(0)]
                    prev = st
                    continue
                elif how == "timeout-then-late":
                    steps.append(tick(50))
                    prev = st
                    continue
                steps.append(reply(good_reply(rng, st), unit=1))
                prev = st
            scs.append(scenario(len(scs), steps, framing="tcp", tag=f"c03-one-frame-per-request-{style}"))
    return scs


# ------------------------------------------------------------------ C04
def gen_c04(rng, thorough=False):
    scs = []
    reqs = []
    for fc in (1, 2):
        for c in ((1, 8, 9, 16, 2000) if thorough else (1, 9, 2000)):
            reqs.append(submit(0, fc, 1, rng.choice([0, 100, 65536 - c]), c))
    for fc in (3, 4):
        for c in ((1, 2, 125) if thorough else (2, 125)):
            reqs.append(submit(0, fc, 1, rng.choice([0, 100, 65536 - c]), c))
    reqs += [submit(0, 5, 1, 7, 1, [1]), submit(0, 5, 1, 65535, 1, [0]), submit(0, 6, 1, 300, 1, [0xA55A]),
             submit(0, 15, 1, 20, 11, [1] * 11), submit(0, 15, 1, 0, 1968, [1, 0] * 984),
             submit(0, 16, 1, 9, 3, [1, 2, 3]), submit(0, 16, 1, 65413, 123, [7] * 123)]
    for framing in ("tcp", "rtu"):
        for st0 in reqs:
            variants = reply_variants(rng, st0, thorough)
            if framing == "rtu":
                # only replies the RTU length table can delimit as sent are interesting here; others are C06/C07
                variants = [(n, p) for n, p in variants if rtu_rsp_delimitable(p)]
            for i in range(0, len(variants), 25):
                steps = [cmd("enable")]
                for j, (name, pdu) in enumerate(variants[i:i + 25]):
                    st = dict(st0)
                    st["r"] = j + 1
                    st["style"] = rng.choice(["future", "callback"])
                    steps += [st, reply(pdu, unit=1), tick(100)]
                scs.append(scenario(len(scs), steps, framing=framing, decode=rng.choice(DECODES), tag=f"c04-fc{st0['fc']}"))
    # the genuine reply of maximum size arriving in the same segment as frames that must be skipped (foreign ids): what is
    # delivered must still be exactly the values of the genuine reply
    for fc, count in ((3, 125), (4, 125), (1, 2000), (2, 1999), (3, 124)):
        for nstale in (1, 2, 5):
            steps = [cmd("enable")]
            for r in range(1, 4):
                st = submit(r, fc, 1, rng.randrange(0, 60000), count, (), 100, rng.choice(["future", "callback"]))
                for k in range(nstale):
                    steps.append(reply(rng.choice([[fc + 128, 2], [3, 2, 0xAA, 0xAA], [6, 0, 1, 0, 2]]), unit=1, txrel=-(k + 1), hold=True))
                steps += [st, reply(good_reply(rng, st), unit=1, hold=True), deliver(0), tick(100)]
            scs.append(scenario(len(scs), steps, framing="tcp", tag=f"c04-max-reply-behind-{nstale}-foreign-frames"))
    # ... and around the 16-bit wrap of the transaction id: the late reply to a timed-out request is never the result of
    # its successor
    for txid0 in (65533, 65535):
        steps = [cmd("enable")]
        prev = None
        for r in range(1, 8):
            st = submit(r, 3, 1, 10 * r, 2, (), 20)
            steps.append(st)
            if r % 2 == 1:
                steps.append(tick(20))                                   # times out
            else:
                steps.append(reply([3, 4, 0xAA, 0xAA, 0xAA, r], unit=1, txrel=-1))     # late reply to the predecessor
                steps.append(reply(good_reply(rng, st), unit=1))
            prev = st
        scs.append(scenario(len(scs), steps, framing="tcp", tag="c04-late-reply-near-wrap", txid0=txid0))
    return scs


def rtu_rsp_delimitable(pdu):
    if not pdu:
        return False
    fc = pdu[0]
    if fc >= 128:
        return len(pdu) == 2
    if fc in (1, 2, 3, 4):
        return len(pdu) >= 2 and len(pdu) == 2 + pdu[1]
    if fc in (5, 6, 15, 16):
        return len(pdu) == 5
    return False


# ------------------------------------------------------------------ C10: everything interleaved
def gen_c10(rng, n, thorough=False):
    scs = []
    for k in range(n):
        framing = rng.choice(["tcp", "tcp", "rtu"])
        queue = rng.choice([1, 2, 3, 16])
        maxto = rng.choice([0, 0, 1, 2, 3])
        steps = [cmd("enable")] if rng.random() < 0.9 else []
        r = 0
        outstanding = []
        for _ in range(rng.randint(3, 40)):
            x = rng.random()
            if x < 0.35:
                r += 1
                st = rand_request(rng, r, timeout=rng.choice([10, 50, 100]))
                if rng.random() < 0.08:
                    st["count"] = 0 if st["fc"] < 5 else st["count"]
                steps.append(st)
                outstanding.append(st)
            elif x < 0.55 and outstanding:
                st = outstanding.pop(0) if rng.random() < 0.8 else rng.choice(outstanding)
                kind = rng.random()
                if kind < 0.6:
                    steps.append(reply(good_reply(rng, st), unit=st["unit"]))
                elif kind < 0.75:
                    steps.append(reply([st["fc"] + 128, rng.choice([1, 2, 3, 4, 11])], unit=st["unit"]))
                elif kind < 0.85:
                    steps.append(reply(good_reply(rng, st), unit=st["unit"], txrel=rng.choice([-1, -2, 1, 255, -256])))
                else:
                    steps.append(reply(rng.choice(reply_variants(rng, st))[1], unit=st["unit"]))
            elif x < 0.70:
                steps.append(tick(rng.choice([1, 9, 10, 11, 49, 50, 51, 100, 500])))
            elif x < 0.75:
                steps.append(cmd("decode", level=rng.choice(DECODES)))
            elif x < 0.79:
                steps.append(cmd(rng.choice(["disable", "enable"])))
            elif x < 0.82:
                steps.append({"op": rng.choice(["eof", "werr", "rerr"]), "kind": "ConnectionReset"})
            elif x < 0.86:
                steps.append(cmd("new_conn"))
                steps.append(cmd("enable"))
            elif x < 0.88:
                steps.append(peer([rng.randrange(256) for _ in range(rng.choice([1, 7, 8, 30]))]))
            elif x < 0.90:
                steps.append(cmd("shutdown"))
            elif x < 0.915:
                steps.append(cmd("drop"))
            elif x < 0.93:
                steps.append(cmd("abort"))
        scs.append(scenario(k, steps, framing=framing, queue=queue, max_timeouts=maxto,
                            decode=rng.choice(DECODES), tag="c10-random"))
    scs += gen_cut_frame_then_reconnect(rng, cuts=(3, 7, 9), tagp="c10")
    # a peer that keeps sending frames which are not the reply must not keep a request pending
    for timeout in (10, 100):
        for period in (timeout // 2, timeout - 1, 3):
            steps = [cmd("enable")]
            st = rand_request(rng, 1, timeout=timeout, unit=1)
            st2 = rand_request(rng, 2, timeout=timeout, unit=1)
            steps += [st, st2]
            t = 0
            while t < 3 * timeout:
                steps.append(tick(period))
                t += period
                steps.append(reply(good_reply(rng, st), unit=1, txrel=-5))
            steps += [cmd("shutdown")]
            scs.append(scenario(len(scs), steps, framing="tcp", queue=16, max_timeouts=0, tag="c10-foreign-frames-forever"))
    return scs


# ------------------------------------------------------------------ C11: transaction ids
def gen_c11(rng, thorough=False):
    scs = []
    ks = [1, 2, 3, 255, 256, 257, 32768, 65534, 65535]
    for rep in range(6 if thorough else 2):
        for when in ("before", "idle", "after-timeout"):
            steps = [cmd("enable")]
            r = 0
            for k in ks:
                r += 1
                st = rand_request(rng, r, timeout=100, unit=1)
                other = rand_request(rng, 0, timeout=100, unit=1)
                steps.append(st)
                if when == "before":
                    # stale / future / duplicate frames while the request is outstanding, then the genuine reply
                    steps.append(reply(good_reply(rng, st), unit=1, txrel=-k))
                    steps.append(reply(good_reply(rng, other), unit=1, txrel=k))
                    steps.append(reply(good_reply(rng, st), unit=1))
                    steps.append(reply(good_reply(rng, st), unit=1))          # duplicate arrives while idle
                elif when == "idle":
                    steps.append(reply(good_reply(rng, st), unit=1))
                    steps.append(reply(good_reply(rng, st), unit=1, txrel=k))   # unsolicited, idle
                    steps.append(reply(good_reply(rng, st), unit=1, txrel=1))   # pre-answer for the next id, idle
                else:
                    steps.append(tick(100))
                    steps.append(reply(good_reply(rng, st), unit=1))            # late reply to a timed-out request
                    r += 1
                    st2 = rand_request(rng, r, timeout=100, unit=1)
                    steps.append(st2)
                    steps.append(reply(good_reply(rng, st), unit=1, txrel=-1))  # late reply again, now stale by 1
                    steps.append(reply(good_reply(rng, st2), unit=1))
            scs.append(scenario(len(scs), steps, queue=16, tag=f"c11-{when}"))
    # across the 16-bit wrap (the harness starts the counter shortly before it): late replies to the requests
    # around the wrap must not be accepted by their successors
    for txid0 in (65530, 65535, 65533):
        steps = [cmd("enable")]
        prev = None
        for i in range(12):
            st = rand_request(rng, i + 1, timeout=20, unit=1)
            steps.append(st)
            mode = rng.choice(["ok", "timeout", "late-then-ok"]) if prev else "ok"
            if mode == "ok":
                steps.append(reply(good_reply(rng, st), unit=1))
            elif mode == "timeout":
                steps.append(tick(20))
            else:
                steps.append(reply(good_reply(rng, prev), unit=1, txrel=-1))
                steps.append(reply(good_reply(rng, st), unit=1))
            prev = st
        scs.append(scenario(len(scs), steps, tag="c11-wrap-near", txid0=txid0))
    # a late reply that straddles the deadline: its head arrives in time, the request times out, the next request is
    # sent, and the tail -- register values the peer chooses freely, here spelling a complete frame with the next
    # request's id -- arrives afterwards.  The tail belongs to the stale frame and must be discarded with it.
    for txid0 in (0, 7, 65535):
        for head in (7, 8, 9, 12):
            for tail_when in ("await-next", "idle"):
                nxt = (txid0 + 1) % 65536
                inner = [nxt >> 8, nxt & 255, 0, 0, 0, 5, 1, 3, 2, 0xBE, 0xEF, 0]
                late = [txid0 >> 8, txid0 & 255, 0, 0, 0, 15, 1, 3, 12] + inner
                st1 = submit(1, 3, 1, 0, 6, (), 10)
                st2 = submit(2, 3, 1, 50, 1, (), 100)
                steps = [cmd("enable"), st1, peer(late[:head]), tick(10)]
                if tail_when == "await-next":
                    steps += [st2, peer(late[head:]), reply([3, 2, 0x12, 0x34], unit=1)]
                else:
                    steps += [peer(late[head:]), st2, reply([3, 2, 0x12, 0x34], unit=1)]
                scs.append(scenario(len(scs), steps, tag=f"c11-late-reply-straddles-deadline@{head}-{tail_when}", txid0=txid0))
    # the id sequence belongs to the channel, not to a unit: requests to several unit ids advance one sequence, and a
    # late / unsolicited frame from ANOTHER unit is matched (and discarded) by its transaction id like any other
    for rep in range(4 if thorough else 2):
        steps = [cmd("enable")]
        prev = None
        for r in range(1, 14):
            u = rng.choice([1, 2, 3, 7, 247])
            st = rand_request(rng, r, timeout=20, unit=u)
            steps.append(st)
            mode = rng.choice(["ok", "timeout", "late-from-other-unit", "unsolicited-other-unit", "stale-other-unit"]) if prev else "ok"
            if mode == "timeout":
                steps.append(tick(20))
            elif mode == "late-from-other-unit":
                steps.append(reply(good_reply(rng, prev), unit=prev["unit"], txrel=-1))
                steps.append(reply(good_reply(rng, st), unit=u))
            elif mode == "unsolicited-other-unit":
                steps.append(reply(good_reply(rng, st), unit=(u % 200) + 9, txrel=rng.choice([1, 5, 300])))
                steps.append(reply(good_reply(rng, st), unit=u))
            elif mode == "stale-other-unit":
                steps.append(reply(good_reply(rng, st), unit=(u % 200) + 9, txrel=-rng.choice([1, 2, 40000])))
                steps.append(reply(good_reply(rng, st), unit=u))
            else:
                steps.append(reply(good_reply(rng, st), unit=u))
            prev = st
        scs.append(scenario(len(scs), steps, tag="c11-several-units-one-sequence", txid0=rng.choice([0, 65530])))
    # the id sequence belongs to the channel, not to a connection: it goes on across disable / enable, a peer that closes,
    # a framing error and a new connection
    for how in ("disable-enable", "eof", "garbage", "mixed"):
        steps = [cmd("enable")]
        r = 0
        for rnd in range(4):
            for _ in range(rng.randint(1, 3)):
                r += 1
                st = rand_request(rng, r, unit=1, timeout=100)
                steps += [st, reply(good_reply(rng, st), unit=1)]
            h = how if how != "mixed" else rng.choice(["disable-enable", "eof", "garbage"])
            if h == "disable-enable":
                steps += [cmd("disable"), cmd("new_conn"), cmd("enable")]
            elif h == "eof":
                steps += [{"op": "eof"}, cmd("new_conn")]
            else:
                steps += [peer([0, 0, 0, 9, 0, 0, 0, 0]), cmd("new_conn")]
        r += 1
        st = rand_request(rng, r, unit=1, timeout=100)
        steps += [st, reply(good_reply(rng, st), unit=1)]
        scs.append(scenario(len(scs), steps, tag=f"c11-id-sequence-across-{how}", txid0=rng.choice([0, 65533])))
    # invalid requests taken from the queue still advance the id
    steps = [cmd("enable")]
    r = 0
    for _ in range(12):
        r += 1
        if rng.random() < 0.4:
            steps.append(submit(r, 15, 1, 0, 1970, [1] * 1970, 100))
        else:
            st = rand_request(rng, r, unit=1)
            steps += [st, reply(good_reply(rng, st), unit=1)]
    scs.append(scenario(len(scs), steps, tag="c11-invalid-advance"))
    # pipelining attempts: several requests queued at once; only one may be outstanding, FIFO
    for _ in range(8 if thorough else 3):
        steps = [cmd("enable")]
        sts = [rand_request(rng, i + 1, unit=1, timeout=100) for i in range(6)]
        steps += sts
        for st in sts:
            if rng.random() < 0.8:
                steps.append(reply(good_reply(rng, st), unit=1))
            else:
                steps.append(tick(100))
        scs.append(scenario(len(scs), steps, queue=rng.choice([1, 2, 16]), tag="c11-fifo"))
    return scs


def gen_c11_wrap(rng, n=66000):
    steps = [cmd("enable")]
    for i in range(n):
        st = submit(i + 1, 3, 1, i % 100, 1, (), 100)
        steps.append(st)
        steps.append(reply([3, 2, (i >> 8) & 255, i & 255], unit=1))
    return [scenario(0, steps, tag="c11-wrap")]


# ------------------------------------------------------------------ C12: deadlines and the counter
def gen_c12(rng, thorough=False):
    scs = []
    # reply (possibly split) relative to the deadline
    for timeout in (1, 10, 100, 1000):
        for offs in (-1, 0, 1):
            for split in (None, 1, 7, 8):
                steps = [cmd("enable")]
                st = rand_request(rng, 1, timeout=timeout, unit=1)
                steps.append(st)
                at = timeout + offs
                if split is None:
                    if at > 0:
                        steps.append(tick(at))
                    steps.append(reply(good_reply(rng, st), unit=1))
                else:
                    steps.append(reply(good_reply(rng, st), unit=1, hold=True))
                    steps.append(deliver(split))
                    if at > 0:
                        steps.append(tick(at))
                    steps.append(deliver(0))
                # the connection stays usable
                st2 = rand_request(rng, 2, timeout=50, unit=1)
                steps += [st2, reply(good_reply(rng, st2), unit=1)]
                scs.append(scenario(len(scs), steps, tag=f"c12-deadline{offs:+d}"))
    # traffic that is not the reply must not move the deadline: stale / foreign frames and partial
    # frames arriving before it, then silence until exactly the deadline
    for timeout in (10, 100):
        for pattern in ([3], [timeout // 2], [timeout - 1], [2, 3, timeout // 2], [timeout // 3] * 2):
            for kind in ("stale", "future", "partial", "exception-for-other"):
                steps = [cmd("enable")]
                st = rand_request(rng, 1, timeout=timeout, unit=1)
                steps.append(st)
                used = 0
                for d in pattern:
                    steps.append(tick(d))
                    used += d
                    if kind == "stale":
                        steps.append(reply(good_reply(rng, st), unit=1, txrel=-1))
                    elif kind == "future":
                        steps.append(reply(good_reply(rng, st), unit=1, txrel=7))
                    elif kind == "exception-for-other":
                        steps.append(reply([st["fc"] + 128, 2], unit=1, txrel=-3))
                    else:
                        steps.append(peer([0]))
                if timeout - used > 1:
                    steps.append(tick(timeout - used - 1))
                    used = timeout - 1
                steps.append(tick(timeout - used))
                st2 = rand_request(rng, 2, timeout=50, unit=1)
                steps += [st2, tick(1)]
                if kind != "partial":
                    steps.append(reply(good_reply(rng, st2), unit=1))
                scs.append(scenario(len(scs), steps, max_timeouts=rng.choice([0, 3]), tag=f"c12-{kind}-does-not-extend"))
    # per-request timeouts differ within a script
    for _ in range(10 if thorough else 3):
        steps = [cmd("enable")]
        for i in range(8):
            t = rng.choice([1, 5, 20, 100])
            st = rand_request(rng, i + 1, timeout=t, unit=1)
            steps.append(st)
            if rng.random() < 0.5:
                steps += [tick(t - 1)] if t > 1 else []
                steps.append(reply(good_reply(rng, st), unit=1))
            else:
                steps += ([tick(t - 1)] if t > 1 else []) + [tick(1)]
        scs.append(scenario(len(scs), steps, tag="c12-mixed-timeouts"))
    # outcome sequences x limit N
    outcomes = ["timeout", "ok", "exc", "bad"]
    for N in (0, 1, 2, 3, 5):
        seqs = []
        for ln in range(1, 7):
            for _ in range((8 if thorough else 2) if ln > 2 else 4):
                seqs.append([rng.choice(outcomes) if rng.random() < 0.5 else "timeout" for _ in range(ln)])
        for seq in seqs:
            steps = [cmd("enable")]
            for i, o in enumerate(seq):
                st = rand_request(rng, i + 1, timeout=20, unit=1)
                steps.append(st)
                if o == "timeout":
                    steps.append(tick(20))
                elif o == "ok":
                    steps.append(reply(good_reply(rng, st), unit=1))
                elif o == "exc":
                    steps.append(reply([st["fc"] + 128, 4], unit=1))
                else:
                    steps.append(reply([st["fc"], 99, 1, 2, 3, 4, 5, 6, 7], unit=1))
            # after a drop: a new connection starts with the counter cleared
            steps += [cmd("new_conn")]
            for i in range(2):
                st = rand_request(rng, 100 + i, timeout=20, unit=1)
                steps += [st, tick(20)]
            scs.append(scenario(len(scs), steps, max_timeouts=N, tag=f"c12-limit{N}"))
    # the count belongs to one connection: a timeouts, the connection ends for another reason, then it takes
    # exactly N timeouts on the new connection
    for N in (2, 3):
        for a in range(1, N):
            for how in ("eof", "garbage", "werr", "disable"):
                steps = [cmd("enable")]
                r = 0
                for _ in range(a):
                    r += 1
                    steps += [rand_request(rng, r, timeout=10, unit=1), tick(10)]
                if how == "eof":
                    steps.append({"op": "eof"})
                elif how == "garbage":
                    steps.append(peer([0, 0, 0, 9, 0, 0, 0, 0]))
                elif how == "werr":
                    r += 1
                    steps += [{"op": "werr", "kind": "BrokenPipe"}, rand_request(rng, r, timeout=10, unit=1)]
                else:
                    steps.append(cmd("disable"))
                steps += [cmd("new_conn"), cmd("enable")]
                for _ in range(N + 1):
                    r += 1
                    steps += [rand_request(rng, r, timeout=10, unit=1), tick(10)]
                scs.append(scenario(len(scs), steps, max_timeouts=N, tag=f"c12-count-per-connection-{how}"))
    # the timeout runs from the moment the request has been TRANSMITTED: a transport that takes the bytes late (full send
    # buffer, flow control) delays the deadline by as much; the reply arrives just before / at / after the deadline so measured
    for timeout in (10, 100):
        for hold in (1, timeout // 2, timeout, 3 * timeout):
            for offs in (-1, 0, 1):
                st = rand_request(rng, 1, timeout=timeout, unit=1)
                steps = [cmd("enable"), {"op": "whold", "ok": True}, st, tick(hold), {"op": "whold", "ok": False}]
                at = timeout + offs
                steps += [tick(at), reply(good_reply(rng, st), unit=1)]
                st2 = rand_request(rng, 2, timeout=50, unit=1)
                steps += [st2, reply(good_reply(rng, st2), unit=1)]
                scs.append(scenario(len(scs), steps, tag=f"c12-deadline-from-transmission-hold{hold}{offs:+d}"))
    # a device that always answers too late: every request times out and the late reply to its predecessor (a frame that
    # is discarded, not an outcome) arrives while it waits -- the run of timeouts is still a run, the limit is reached at N
    for N in (2, 3, 5):
        for kind in ("late-reply", "late-exception", "unsolicited"):
            steps = [cmd("enable")]
            prev = None
            for r in range(1, N + 2):
                st = rand_request(rng, r, timeout=10, unit=1)
                steps.append(st)
                if prev is not None:
                    steps.append(tick(3))
                    if kind == "late-reply":
                        steps.append(reply(good_reply(rng, prev), unit=1, txrel=-1))
                    elif kind == "late-exception":
                        steps.append(reply([prev["fc"] + 128, 4], unit=1, txrel=-1))
                    else:
                        steps.append(reply([3, 2, 0, 1], unit=1, txrel=9))
                    steps.append(tick(7))
                else:
                    steps.append(tick(10))
                prev = st
            steps += [cmd("new_conn"), rand_request(rng, 50, timeout=10, unit=1), tick(10)]
            scs.append(scenario(len(scs), steps, max_timeouts=N, tag=f"c12-limit{N}-discarded-frames-are-not-outcomes-{kind}"))
    # a partial frame precedes a disconnect; the next connection's timely replies must succeed
    for cut in (1, 3, 6, 7, 9):
        for how in ("eof", "rerr"):
            steps = [cmd("enable")]
            st = rand_request(rng, 1, timeout=100, unit=1)
            steps += [st, reply(good_reply(rng, st) + [0] * 8, unit=1, hold=True), deliver(cut), {"op": how, "kind": "ConnectionReset"},
                      cmd("new_conn")]
            for i in range(3):
                st2 = rand_request(rng, 10 + i, timeout=100, unit=1)
                steps += [st2, tick(5), reply(good_reply(rng, st2), unit=1)]
            scs.append(scenario(len(scs), steps, tag=f"c12-partial-then-{how}"))
    return scs


# ------------------------------------------------------------------ client side of C05 / C06 / C07 / C20
def gen_c05_client(rng, thorough=False):
    scs = []
    for rep in range(6 if thorough else 2):
        # one stream: stale frames, the genuine reply, frames that arrive while idle; many chunkings
        st = rand_request(rng, 1, timeout=1000, unit=1, small=rng.random() < 0.5)
        st2 = rand_request(rng, 2, timeout=1000, unit=1)
        nstale = rng.choice([1, 5, 30])
        base = [reply(good_reply(rng, st), unit=1, txrel=-(i + 1), hold=True) for i in range(nstale)]
        base.append(reply(good_reply(rng, st), unit=1, hold=True))
        total_guess = sum(len(x["pdu"]) + 7 for x in base)
        patterns = [[0], [1] * min(total_guess, 400) + [0], [6, 1, 0], [7, 0], [5, 0], [259, 0], [260, 0], [261, 0], [253, 7, 0]]
        for i in range(1, min(total_guess, 40)):
            patterns.append([i, 0])
        for _ in range(4):
            patterns.append([rng.choice([1, 2, 3, 5, 8, 13, 64, 259, 260, 261]) for _ in range(30)] + [0])
        for pat in patterns:
            steps = [cmd("enable"), dict(st)] + [dict(b) for b in base] + [deliver(n) for n in pat]
            steps += [dict(st2), reply(good_reply(rng, st2), unit=1)]
            scs.append(scenario(len(scs), steps, tag="c05-client-chunking"))
    # a reply delivered in two segments with the request's deadline and the NEXT request in between: the second segment
    # still belongs to the first (stale) frame, and the next reply is framed from its own first byte
    for cut in (1, 4, 6, 7, 8, 9, 12):
        st = submit(1, 3, 1, 0, 4, (), 50)
        st2 = rand_request(rng, 2, timeout=1000, unit=1)
        steps = [cmd("enable"), st, reply(good_reply(rng, st), unit=1, hold=True), deliver(cut), tick(50), st2, deliver(0),
                 reply(good_reply(rng, st2), unit=1)]
        st3 = rand_request(rng, 3, timeout=1000, unit=1)
        steps += [st3, reply(good_reply(rng, st3), unit=1)]
        scs.append(scenario(len(scs), steps, tag=f"c05-client-late-segment@{cut}-after-next-request"))
        # the same while idle: a frame trickles in with no request outstanding, the next request is sent in between
        steps = [cmd("enable"), reply([3, 2, 0, 1], unit=1, txrel=-1, hold=True), deliver(cut), st2, deliver(0), reply(good_reply(rng, st2), unit=1)]
        scs.append(scenario(len(scs), steps, tag=f"c05-client-idle-trickle@{cut}-then-request"))
    scs += gen_cut_frame_then_reconnect(rng, tagp="c05-client")
    for i, x in enumerate(scs):
        x["id"] = i
    # malformed headers in place of / after the reply
    bad = {"proto": [0, 0, 0, 1, 0, 3, 1, 3, 0], "len0": [0, 0, 0, 0, 0, 0, 1, 3, 0],
           "len255": [0, 0, 0, 0, 0, 255, 1] + [3] * 254, "len65535": [0, 0, 0, 0, 255, 255, 1, 3]}
    for name, b in bad.items():
        for when in ("await", "idle"):
            for chunk in (None, 1, 6, 7):
                st = rand_request(rng, 1, timeout=1000, unit=1)
                steps = [cmd("enable")]
                if when == "await":
                    steps.append(st)
                if chunk is None:
                    steps.append(peer(b))
                else:
                    steps += [peer(b[i:i + chunk]) for i in range(0, len(b), chunk)]
                steps += [cmd("new_conn"), rand_request(rng, 5, timeout=10, unit=1), tick(10)]
                scs.append(scenario(len(scs), steps, tag=f"c05-client-bad-{name}-{when}"))
    return scs


def gen_c06_client(rng, thorough=False):
    scs = []
    reqs = [submit(1, 1, 1, 16, 19), submit(1, 3, 1, 0, 2), submit(1, 3, 1, 0, 125), submit(1, 5, 1, 3, 1, [1]),
            submit(1, 6, 1, 9, 1, [0x1234]), submit(1, 15, 1, 0, 10, [1] * 10), submit(1, 16, 1, 0, 2, [1, 2])]
    for st in reqs:
        good = good_reply(rng, st)
        for kind, pdu in (("ok", good), ("exc", [st["fc"] + 128, 2])):
            f = rtu(1, pdu)
            nbits = len(f) * 8
            short = len(f) <= 16
            bits = list(range(nbits)) if (short or thorough) else sorted(rng.sample(range(nbits), 100))
            cases = [[b] for b in bits]
            cases += [sorted(rng.sample(range(nbits), 2)) for _ in range(300 if thorough else 40)]
            for _ in range(200 if thorough else 30):
                ln = rng.randint(2, 16)
                s0 = rng.randrange(0, nbits - ln + 1)
                cases.append([s0, s0 + ln - 1] + [s0 + i for i in range(1, ln - 1) if rng.random() < 0.5])
            for flips in cases:
                c = list(f)
                for b in flips:
                    c[b // 8] ^= 1 << (b % 8)
                steps = [cmd("enable"), dict(st)]
                if rng.random() < 0.2:
                    steps += [peer([x]) for x in c]
                else:
                    steps.append(peer(c))
                steps += [tick(100), cmd("new_conn"), submit(2, 3, 1, 0, 1, (), 10), reply([3, 2, 0, 1], unit=1)]
                scs.append(scenario(len(scs), steps, framing="rtu", tag=f"c06-client-{kind}-{len(flips)}flips"))
            steps = [cmd("enable"), dict(st)] + [peer([x]) for x in f]
            scs.append(scenario(len(scs), steps, framing="rtu", tag="c06-client-good-bytes"))
            # the two CRC bytes exchanged
            steps = [cmd("enable"), dict(st), peer(f[:-2] + [f[-1], f[-2]]), tick(100), cmd("new_conn"), submit(2, 3, 1, 0, 1, (), 10),
                     reply([3, 2, 0, 1], unit=1)]
            scs.append(scenario(len(scs), steps, framing="rtu", tag=f"c06-client-{kind}-crc-bytes-swapped"))
            # the good reply cut in two at every offset
            if len(f) <= 16:
                for cut in range(1, len(f)):
                    steps = [cmd("enable"), dict(st), peer(f[:cut]), peer(f[cut:])]
                    scs.append(scenario(len(scs), steps, framing="rtu", tag=f"c06-client-{kind}-good-split@{cut}"))
    return scs


def gen_c07_client(rng, n):
    scs = []
    for k in range(n):
        framing = rng.choice(["tcp", "rtu"])
        steps = [cmd("enable")]
        r = 0
        for _ in range(rng.randint(1, 8)):
            r += 1
            st = rand_request(rng, r, timeout=rng.choice([10, 100]), unit=1, small=rng.random() < 0.8)
            mode = rng.choice(["idle-garbage", "await-garbage", "mutated-reply", "edge-reply", "good"])
            if mode == "idle-garbage":
                steps.append(peer([rng.randrange(256) for _ in range(rng.choice([1, 6, 7, 8, 40, 300]))]))
                steps.append(st)
            elif mode == "await-garbage":
                steps.append(st)
                steps.append(peer([rng.randrange(256) for _ in range(rng.choice([1, 6, 7, 8, 40, 300]))]))
            elif mode == "mutated-reply":
                steps.append(st)
                pdu = good_reply(rng, st)
                fr = mbap(0, 1, pdu) if framing == "tcp" else rtu(1, pdu)
                import e1 as _e1
                for _ in range(rng.randint(1, 3)):
                    fr = _e1.mutate(rng, fr)
                if fr:
                    steps.append(peer(fr))
            elif mode == "edge-reply":
                c = rng.choice([1, 8, 2000]) if st["fc"] in (1, 2) else 1
                st = submit(r, rng.choice([1, 2]), 1, 65536 - c, c, (), 100, rng.choice(["future", "callback"]))
                steps += [st, reply(good_reply(rng, st), unit=1)]
            else:
                steps += [st, reply(good_reply(rng, st), unit=1)]
            steps.append(tick(100))
            if rng.random() < 0.5:
                steps.append(cmd("new_conn"))
            if rng.random() < 0.2:
                steps.append(cmd("decode", level=rng.choice(DECODES)))
        scs.append(scenario(k, steps, framing=framing, max_timeouts=rng.choice([0, 2]), decode=rng.choice(DECODES),
                            tag="c07-client"))
    # the RTU length boundary: read replies whose byte count puts the frame at, just below and beyond the largest frame
    for bc in (0xF8, 0xFA, 0xFB, 0xFC, 0xFD, 0xFE, 0xFF):
        for fc in (1, 3):
            for when in ("await", "idle"):
                body = [1, fc, bc] + [rng.randrange(256) for _ in range(bc + 2)]
                steps = [cmd("enable")]
                if when == "await":
                    steps.append(submit(1, fc, 1, 0, 100 if fc == 3 else 2000, (), 100))
                steps += [peer(body), tick(100), cmd("new_conn"), submit(2, 3, 1, 0, 1, (), 10), tick(10)]
                scs.append(scenario(len(scs), steps, framing="rtu", tag=f"c07-client-rtu-length-boundary-{bc:#x}"))
    # "spin without progress or stop honouring shutdown": a peer that never answers but keeps sending well-formed frames
    # (foreign ids, exceptions for other functions, unsolicited replies) faster than the response timeout; the request must
    # still time out at its deadline, the queue behind it must move, and disable / shutdown must be acted upon
    for timeout in (10, 60):
        for period in (1, timeout // 2, timeout - 1):
            for ending in ("shutdown", "disable", "drop"):
                steps = [cmd("enable")]
                st = rand_request(rng, 1, timeout=timeout, unit=1)
                st2 = rand_request(rng, 2, timeout=timeout, unit=1)
                steps += [st, st2, cmd(ending)]
                t = 0
                while t < 3 * timeout:
                    steps.append(tick(period))
                    t += period
                    steps.append(rng.choice([reply(good_reply(rng, st), unit=1, txrel=-5), reply([st["fc"] + 128, 2], unit=1, txrel=7),
                                             reply([3, 2, 0, 1], unit=9, txrel=100)]))
                scs.append(scenario(len(scs), steps, framing="tcp", queue=16, max_timeouts=0, decode=rng.choice(DECODES),
                                    tag=f"c07-client-dribble-{ending}"))
    for i, s in enumerate(scs):
        s["id"] = i
    return scs


def at_levels(scs, levels):
    """the same scripts with the channel created at other decode levels (nothing observable may change)"""
    out = []
    for sc in scs:
        for lv in levels:
            c = dict(sc)
            c["id"] = len(out)
            c["decode"] = list(lv)
            c["tag"] = sc["tag"] + f"+dec{list(lv)}"
            out.append(c)
    return out


def with_decode_variants(rng, scs, positions=2, all_levels=False):
    out = []
    levels = DECODES if all_levels else [[0, 0, 0], [3, 2, 2]]
    for sc in scs:
        for lv in levels:
            c = dict(sc)
            c["id"] = len(out)
            c["decode"] = lv
            c["tag"] = sc["tag"] + "+dec"
            out.append(c)
        n = len(sc["steps"])
        pos = range(1, n + 1) if positions is None else sorted(set(rng.randrange(1, n + 1) for _ in range(positions)))
        for p in pos:
            c = dict(sc)
            c["id"] = len(out)
            c["decode"] = rng.choice(DECODES)
            c["steps"] = sc["steps"][:p] + [cmd("decode", level=rng.choice(DECODES))] + sc["steps"][p:]
            c["tag"] = sc["tag"] + f"+setdec@{p}"
            out.append(c)
    return out


# ------------------------------------------------------------------ E3: the whole channel task (mode "task")
def conn(res):
    return {"op": "connector", "res": res}


def gen_task_random(rng, n, sid0=0):
    scs = []
    for k in range(n):
        rmin = rng.choice([1, 10, 100, 1000])
        rmax = rmin * rng.choice([1, 2, 3, 8])
        maxto = rng.choice([0, 0, 1, 2])
        steps = []
        r = 0
        last = None
        for _ in range(rng.randint(4, 45)):
            x = rng.random()
            if x < 0.25:
                r += 1
                last = rand_request(rng, r, timeout=rng.choice([10, 50]), unit=1)
                steps.append(last)
            elif x < 0.38:
                steps.append(conn(rng.choice(["ok", "ok", "err"])))
            elif x < 0.50:
                steps.append(cmd(rng.choice(["enable", "enable", "disable"])))
            elif x < 0.68:
                steps.append(tick(rng.choice([1, 9, 10, 50, rmin - 1 if rmin > 1 else 1, rmin, 2 * rmin, rmax, rmax + 1, 4 * rmax])))
            elif x < 0.76 and last:
                steps.append(reply(good_reply(rng, last), unit=1, txrel=rng.choice([0, 0, 0, -1])))
            elif x < 0.82:
                steps.append({"op": rng.choice(["eof", "rerr", "werr"]), "kind": "ConnectionReset"})
            elif x < 0.86:
                steps.append(peer([rng.randrange(256) for _ in range(rng.choice([3, 7, 9, 40]))]))
            elif x < 0.90:
                steps.append(cmd("decode", level=rng.choice(DECODES)))
            elif x < 0.93:
                steps.append(cmd("shutdown"))
            elif x < 0.95:
                steps.append(cmd("drop"))
            elif x < 0.96:
                steps.append(cmd("abort"))
        scs.append(scenario(sid0 + k, steps, mode="task", queue=rng.choice([1, 2, 16]), max_timeouts=maxto,
                            retry=(rmin, rmax), decode=rng.choice(DECODES), tag="task-random"))
    return scs


def gen_c13(rng, thorough=False):
    scs = []
    # every command / fault at every life-cycle location
    locations = {
        "disabled": [],
        "connecting": [cmd("enable")],
        "wait-failed": [cmd("enable"), conn("err")],
        "connected-idle": [cmd("enable"), conn("ok")],
        "connected-await": [cmd("enable"), conn("ok"), submit(90, 3, 1, 0, 1, (), 1000)],
        "wait-disconnect": [cmd("enable"), conn("ok"), {"op": "eof"}],
        "disabled-again": [cmd("enable"), conn("ok"), cmd("disable")],
    }
    events = {
        "submit": [submit(1, 3, 1, 0, 1, (), 50), submit(2, 6, 1, 0, 1, [5], 50, "callback")],
        "enable": [cmd("enable")],
        "disable": [cmd("disable")],
        "disable-enable": [cmd("disable"), cmd("enable")],
        "decode": [cmd("decode", level=[3, 2, 2])],
        "shutdown": [cmd("shutdown")],
        "drop": [cmd("drop")],
        "abort": [cmd("abort")],
        "conn-ok": [conn("ok")],
        "conn-err": [conn("err")],
        "eof": [{"op": "eof"}],
        "garbage": [peer([1, 2, 3, 4, 5, 6, 7, 8, 9])],
        "werr+submit": [{"op": "werr", "kind": "BrokenPipe"}, submit(3, 3, 1, 0, 1, (), 50)],
        "tick-min": [tick(100)],
        "queued-behind-shutdown": [cmd("shutdown"), submit(4, 3, 1, 0, 1, (), 50), submit(5, 3, 1, 0, 1, (), 50)],
    }
    tail = [submit(50, 3, 1, 0, 1, (), 50), tick(100), conn("ok"), submit(51, 3, 1, 0, 1, (), 50), tick(50), tick(300), cmd("shutdown"),
            submit(52, 3, 1, 0, 1, (), 50)]
    for ln, pre in locations.items():
        for en, evs in events.items():
            steps = [dict(x) for x in pre] + [dict(x) for x in evs] + [dict(x) for x in tail]
            scs.append(scenario(len(scs), steps, mode="task", retry=(100, 400), queue=rng.choice([2, 16]),
                                max_timeouts=rng.choice([0, 1]), tag=f"c13-{ln}-{en}"))
    # a connection is a fresh start: consecutive timeouts counted on a connection that was given up for another reason
    # (disable / enable, the peer closing, garbage) must not make the NEXT connection look dead after fewer than the
    # configured number of timeouts (the listener would see Connected -> WaitAfterDisconnect too early)
    for N in (2, 3):
        for how in ("disable-enable", "eof", "garbage"):
            steps = [cmd("enable"), conn("ok")]
            r = 0
            for _ in range(N - 1):
                r += 1
                steps += [submit(r, 3, 1, 0, 1, (), 10), tick(10)]
            if how == "disable-enable":
                steps += [cmd("disable"), cmd("enable")]
            elif how == "eof":
                steps += [{"op": "eof"}, tick(100)]
            else:
                steps += [peer([0, 0, 0, 9, 0, 0, 0, 0]), tick(100)]
            steps.append(conn("ok"))
            for _ in range(N):
                r += 1
                steps += [submit(r, 3, 1, 0, 1, (), 10), tick(10)]
            steps += [tick(100), conn("ok"), submit(90, 3, 1, 0, 1, (), 10), tick(10)]
            scs.append(scenario(len(scs), steps, mode="task", retry=(100, 400), max_timeouts=N, tag=f"c13-fresh-connection-after-{how}-limit{N}"))
    # a command handed in while the connection attempt completes in the same instant (both branches of the
    # task's select! are ready): whichever order the task takes, the command must not be lost
    for res in ("ok", "err"):
        for what in ("disable", "shutdown", "submit", "decode", "enable"):
            for rep in range(12 if thorough else 6):
                first = cmd(what) if what != "submit" else submit(1, 3, 1, 0, 1, (), 50)
                steps = [cmd("enable"), dict(first, race=True), {"op": "connector", "res": res, "race": True}]
                steps += [tick(100), conn("ok"), submit(60, 3, 1, 0, 1, (), 50), tick(50), cmd("shutdown")]
                scs.append(scenario(len(scs), steps, mode="task", retry=(100, 400), tag=f"c13-race-{what}-{res}"))
    scs += gen_task_random(rng, 1500 if thorough else 250, sid0=len(scs))
    return scs


def cur_lat(rmin):
    return max(1, rmin // 2)


def gen_c14(rng, thorough=False):
    scs = []
    grid = [(1, 1), (1, 8), (10, 15), (100, 100), (100, 250), (100, 800), (1000, 60000), (3, 1000)]
    for rmin, rmax in grid:
        # k failed connects in a row, waiting exactly delay-1 then 1 each time
        def wait(d):
            # traffic that arrives while waiting (requests fail fast, a decode change and a redundant enable are
            # no-ops) must not shorten the wait
            noise = []
            if rng.random() < 0.6:
                noise = [rng.choice([submit(900 + rng.randrange(90), 3, 1, 0, 1, (), 50), cmd("decode", level=[1, 1, 1]), cmd("enable")])
                         for _ in range(rng.randint(1, 2))]
            if d > 2:
                return [tick(1)] + noise + [tick(d - 2), tick(1)]
            return noise + ([tick(d - 1)] if d > 1 else []) + [tick(1)]
        # a connect that takes time before it fails (timeout, stalled handshake): the announced delay is waited from the
        # failure on, whatever the attempt took
        for lat in (1, cur_lat(rmin), 3 * rmax):
            steps = [cmd("enable")]
            cur = rmin
            for _ in range(4):
                steps += [tick(lat), conn("err")]
                steps += wait(cur)
                cur = min(2 * cur, rmax)
            steps += [tick(lat), conn("ok")]
            scs.append(scenario(len(scs), steps, mode="task", retry=(rmin, rmax), max_timeouts=1, tag=f"c14-{rmin}-{rmax}-slow-connect-{lat}"))
        for pattern in ("fail*8", "fail3-ok-fail3", "fail2-ok-eof-fail2", "ok-eof-ok-eof", "fail4-disable-enable-fail2",
                        "fail2-ok-garbage-fail3", "fail3-ok-maxtimeouts-fail2",
                        # the sequence restarts at min after a successful connection however that connection ends
                        "fail3-ok-disable-enable-fail3", "fail2-ok-disable-enable-ok-eof-fail2"):
            steps = [cmd("enable")]
            cur = rmin
            for tok in pattern.split("-"):
                if tok.startswith("fail"):
                    k = int(tok[4:].replace("*", ""))
                    for _ in range(k):
                        steps.append(conn("err"))
                        steps += wait(cur)
                        cur = min(2 * cur, rmax)
                elif tok == "ok":
                    steps.append(conn("ok"))
                    cur = rmin
                    st = rand_request(rng, 1, timeout=5, unit=1)
                    steps += [st, reply(good_reply(rng, st), unit=1)]
                elif tok == "eof":
                    steps.append({"op": "eof"})
                    steps += wait(rmin)
                elif tok == "garbage":
                    steps.append(peer([9, 9, 9, 9, 9, 9, 9, 9]))
                    steps += wait(rmin)
                elif tok == "maxtimeouts":
                    steps += [submit(7, 3, 1, 0, 1, (), 5), tick(5)]
                    steps += wait(rmin)
                elif tok == "disable":
                    steps.append(cmd("disable"))
                elif tok == "enable":
                    steps.append(cmd("enable"))
            scs.append(scenario(len(scs), steps, mode="task", retry=(rmin, rmax), max_timeouts=1,
                                tag=f"c14-{rmin}-{rmax}-{pattern}"))
    return scs


def gen_pty_client(rng, thorough=False):
    """black-box serial slice, client role: the RTU channel task on a pseudo-terminal (tokio_serial, no hook); every
    transmitted request is answered (a genuine reply or an exception), nothing waits for a timer"""
    lat = [x for x in request_lattice(rng) if len(x["values"]) <= 3000]
    rng.shuffle(lat)
    lat = lat[:160 if thorough else 32] + [rand_request(rng, 0, unit=1) for _ in range(80 if thorough else 32)]
    rng.shuffle(lat)
    scs = []
    for i in range(0, len(lat), 16):
        steps = [cmd("enable")]
        for j, st in enumerate(lat[i:i + 16]):
            st = dict(st)
            st["r"] = j + 1
            st["style"] = rng.choice(["future", "callback"])
            st["unit"] = rng.choice([1, 2, 17, 247])
            st["timeout"] = 4000
            steps.append(st)
            limit = {1: 2000, 2: 2000, 3: 125, 4: 125, 5: 1, 6: 1, 15: 1968, 16: 123}[st["fc"]]
            n = len(st["values"]) if st["fc"] in (15, 16) else (1 if st["fc"] in (5, 6) else st["count"])
            valid = 1 <= n <= limit and st["start"] + n <= 65536 and st["start"] <= 65535
            if valid:
                if rng.random() < 0.2:
                    steps.append(reply([st["fc"] + 128, rng.choice([1, 2, 3, 4, 6])], unit=st["unit"]))
                else:
                    steps.append(reply(good_reply(rng, st), unit=st["unit"]))
            if rng.random() < 0.1:
                steps.append(cmd("decode", level=rng.choice(DECODES)))
        scs.append(scenario(len(scs), steps, framing="rtu", mode="pty", decode=rng.choice(DECODES), tag="pty-client"))
    return scs


def to_serial(scs, tagp="serial-"):
    """the same scripts for the RTU channel task: a `connector` result becomes the state of the port at the next
    attempt to open it (opening is synchronous), replies are RTU frames, there is no consecutive-timeout limit"""
    out = []
    for sc in scs:
        results = [s["res"] == "ok" for s in sc["steps"] if s["op"] == "connector"]
        steps = []
        k = 0
        cur = results[0] if results else True
        first = cur
        for s in sc["steps"]:
            if s["op"] == "connector":
                k += 1
                nxt = results[k] if k < len(results) else cur
                if nxt != cur:
                    steps.append({"op": "port", "ok": nxt})
                    cur = nxt
                continue
            s = dict(s)
            s.pop("race", None)
            steps.append(s)
        d = dict(sc)
        d.update({"mode": "serial", "framing": "rtu", "max_timeouts": 0, "steps": steps, "port": first,
                  "tag": tagp + sc.get("tag", "")})
        out.append(d)
    return out


def gen_serial_c14(rng, thorough=False):
    """the port is missing / present / unplugged in patterns; after every attempt the script waits delay-1 and then 1 ms,
    with the state of the port for the next attempt put in place in between"""
    scs = []
    grid = [(1, 1), (1, 8), (10, 15), (100, 250), (100, 800), (1000, 60000), (3, 1000)]
    patterns = ["FFFFFFFF", "FFFeFFF", "egeg", "FFgeF", "FFFFdFF", "FeFFeF", "eFeFFFeFF", "FFFoFFF", "FFoeF"]
    for rmin, rmax in grid:
        for pattern in patterns:
            outcomes = [c for c in pattern if c != "d"]
            steps = []
            port = outcomes[0] != "F"
            first = port
            cur = rmin

            def noise():
                if rng.random() < 0.6:
                    return [rng.choice([submit(900 + rng.randrange(90), 3, 1, 0, 1, (), 50), cmd("decode", level=[1, 1, 1]), cmd("enable")])
                            for _ in range(rng.randint(1, 2))]
                return []

            def wait(d, nxt_ok):
                nonlocal port
                pre = []
                if d > 2:
                    pre = [tick(1)] + noise() + [tick(d - 2)]
                elif d == 2:
                    pre = noise() + [tick(1)]
                else:
                    pre = noise()
                if nxt_ok != port:
                    pre.append({"op": "port", "ok": nxt_ok})
                    port = nxt_ok
                return pre + [tick(1)]

            steps.append(cmd("enable"))
            k = 0
            for c in pattern:
                if c == "d":
                    # disabled while waiting: the wait is abandoned; enabling again attempts at once
                    continue
                nxt_ok = (outcomes[k + 1] != "F") if k + 1 < len(outcomes) else port
                k += 1
                if c == "F":
                    d = cur
                    cur = min(2 * cur, rmax)
                    steps += wait(d, nxt_ok)
                elif c == "o":
                    # opened, used, then disabled and enabled again by the user: the next attempt is made at once
                    cur = rmin
                    st = rand_request(rng, k, timeout=5, unit=1)
                    steps += [st, reply(good_reply(rng, st), unit=1), cmd("disable")]
                    if nxt_ok != port:
                        steps.append({"op": "port", "ok": nxt_ok})
                        port = nxt_ok
                    steps.append(cmd("enable"))
                else:
                    cur = rmin
                    st = rand_request(rng, k, timeout=5, unit=1)
                    steps += [st, reply(good_reply(rng, st), unit=1)]
                    steps.append({"op": "eof"} if c == "e" else peer([1, 99, 9, 9]))
                    steps += wait(rmin, nxt_ok)
            if "d" in pattern:
                steps += [cmd("disable"), tick(rmax), cmd("enable"), tick(1)]
            scs.append(scenario(len(scs), steps, mode="serial", framing="rtu", retry=(rmin, rmax), max_timeouts=0,
                                tag=f"serial-c14-{rmin}-{rmax}-{pattern}"))
            scs[-1]["port"] = first
    return scs


def gen_cut_frame_then_reconnect(rng, cuts=(1, 3, 6, 7, 8, 9, 10), tagp="cut"):
    """a reply is cut off by the end of the connection (inside the header, exactly after it, inside the body); the
    next connection must start clean: its timely replies are framed from their first byte"""
    scs = []
    for cut in cuts:
        for how in ("eof", "rerr"):
            for while_ in ("await", "idle"):
                steps = [cmd("enable")]
                st = submit(1, 3, 1, 0, 4, (), 100)
                pdu = good_reply(rng, st)
                if while_ == "await":
                    steps += [st, reply(pdu, unit=1, hold=True), deliver(cut), {"op": how, "kind": "ConnectionReset"}]
                else:
                    steps += [reply(pdu, unit=1, hold=True), deliver(cut), {"op": how, "kind": "ConnectionReset"}]
                steps.append(cmd("new_conn"))
                for i in range(3):
                    st2 = rand_request(rng, 10 + i, timeout=100, unit=1)
                    steps += [st2, tick(5), reply(good_reply(rng, st2), unit=1)]
                scs.append(scenario(len(scs), steps, tag=f"{tagp}-frame-cut@{cut}-{how}-{while_}-then-reconnect"))
        # ... and when the connection is given up without any I/O or framing error: the request times out with the
        # reply half received, then the user disables / enables the channel, or the consecutive-timeout limit is reached
        for how in ("disable-enable", "maxtimeouts"):
            steps = [cmd("enable")]
            st = submit(1, 3, 1, 0, 4, (), 100)
            steps += [st, reply(good_reply(rng, st), unit=1, hold=True), deliver(cut), tick(100)]
            if how == "disable-enable":
                steps += [cmd("disable"), cmd("new_conn"), cmd("enable")]
            else:
                steps += [cmd("new_conn")]
            for i in range(3):
                st2 = rand_request(rng, 10 + i, timeout=100, unit=1)
                steps += [st2, tick(5), reply(good_reply(rng, st2), unit=1)]
            scs.append(scenario(len(scs), steps, max_timeouts=1 if how == "maxtimeouts" else 0,
                                tag=f"{tagp}-frame-cut@{cut}-{how}-then-reconnect"))
    return scs


# ------------------------------------------------------------------ spec -> impl: scripts simulated by TLC
SIM_CONSTS = {"MaxReadBits": 3, "MaxReadRegs": 2, "MaxWriteCoils": 3, "MaxWriteRegs": 2, "AddrSpace": 8, "TxMod": 4, "Bug": '"none"',
              "NReq": 3, "MaxCmds": 4, "MaxPeer": 5, "MaxTicks": 8, "MaxAttempts": 3, "Cap": 2, "MaxTO": 2, "RMin": 1, "RMax": 2,
              "WithAbort": "TRUE", "Moves": 14}


def sim_scripts(workdir, mode, num, seed):
    """behaviours of Client.tla chosen by TLC (-simulate); returns e2 scenarios replaying their environment moves"""
    import re
    import subprocess
    cfg = os.path.join(workdir, f"sim_{mode}.cfg")
    c = dict(SIM_CONSTS)
    c["Mode"] = f'"{mode}"'
    vf.write_cfg(cfg, "SimSpec", c, extra=["ACTION_CONSTRAINT PrintScript"])
    md = os.path.join(workdir, f"simmd_{mode}")
    env = dict(os.environ)
    env["JAVA_TOOL_OPTIONS"] = "-Xss64m -Xmx4g"
    p = subprocess.run(["tlc", "-workers", "1", "-seed", str(seed), "-simulate", f"num={num}", "-depth", "90", "-metadir", md, "-cleanup",
                        "-noGenerateSpecTE", "-config", cfg, "Client_Sim.tla"], cwd=vf.SPEC, env=env, stdout=subprocess.PIPE,
                       stderr=subprocess.STDOUT, text=True, timeout=900)
    import shutil
    shutil.rmtree(md, ignore_errors=True)
    scs = []
    seen = set()
    for m in re.finditer(r'<<"SCRIPT", "(.*)">>', p.stdout):
        raw = bytes(m.group(1), "utf-8").decode("unicode_escape")
        if raw in seen:
            continue
        seen.add(raw)
        moves = json.loads(raw)
        steps = []
        for mv in moves:
            o = mv["op"]
            if o == "submit":
                r = mv["r"]
                if r == 1:
                    steps.append(submit(1, 3, 1, 0, 1, (), 1, "future"))
                elif r == 2:
                    steps.append(submit(2, 6, 1, 1, 1, [5], 2, "callback"))
                else:
                    steps.append(submit(r, 3, 1, 0, 0, (), 1, "future"))
            elif o == "cmd":
                steps.append(cmd({"en": "enable", "dis": "disable", "dec": "decode", "shut": "shutdown", "drop": "drop", "abort": "abort"}[mv["t"]]))
            elif o == "peer":
                fc = mv.get("fc", 3) or 3
                good = [3, 2, 0, 7] if fc == 3 else [6, 0, 1, 0, 5]
                k = mv["kind"]
                if k == "good":
                    steps.append(reply(good, unit=1))
                elif k == "stale":
                    steps.append(reply(good, unit=1, txrel=-1))
                elif k == "exc":
                    steps.append(reply([fc + 128, 2], unit=1))
                elif k == "malformed":
                    steps.append(reply([fc, 9, 9], unit=1))
                elif k == "badproto":
                    steps.append(peer([0, 0, 0, 1, 0, 2, 1, 3]))
                elif k == "partial":
                    steps += [reply(good, unit=1, hold=True), deliver(3)]
                else:
                    steps.append(reply([3, 2, 0, 7], unit=1, txrel=1))
            elif o == "eof":
                steps.append({"op": "eof"})
            elif o == "werr":
                steps.append({"op": "werr", "kind": "BrokenPipe"})
            elif o == "tick":
                steps.append(tick(1))
            elif o == "connector":
                steps.append(conn(mv["res"]))
            elif o == "new_conn":
                steps.append(cmd("new_conn"))
            elif o == "peerbytes":
                steps.append(peer(mv["bytes"]))
            elif o == "port":
                steps.append({"op": "port", "ok": bool(mv["ok"])})
        scs.append(scenario(len(scs), steps, mode=mode, queue=SIM_CONSTS["Cap"], max_timeouts=0 if mode == "serial" else SIM_CONSTS["MaxTO"],
                            retry=(SIM_CONSTS["RMin"], SIM_CONSTS["RMax"]), tag=f"tlc-simulated-{mode}",
                            framing="rtu" if mode == "serial" else "tcp"))
        if mode == "serial":
            scs[-1]["port"] = True
    if not scs:
        raise vf.ToolError("TLC simulation printed no script:\n" + p.stdout[-2000:])
    return scs
