"""One function per property.  Each builds inputs, runs the production code through a harness
engine, lets TLC judge (design-level model checking + trace validation) and fills a vf.Result."""
import json
import os
import random
import time

import vf
import e1

CHECKS = {}


def check(pid):
    def deco(f):
        CHECKS[pid] = f
        return f
    return deco


AUTH_MODES = [None,
              {"policy": "allow", "seed": 0, "role": "operator"},
              {"policy": "deny", "seed": 0, "role": "viewer"},
              {"policy": "readonly", "seed": 0, "role": ""},
              {"policy": "hash", "seed": 1, "role": "operator"},
              {"policy": "hash", "seed": 2, "role": "a-rather-long-role-name-" + "x" * 180}]


def report_e1(res, pid, rejs):
    for sc, r in rejs:
        text = e1.describe_rejection(sc, r)
        fid = match_known(pid, "e1", sc, r)
        if fid:
            res.known(fid[0], fid[1])
        else:
            res.violation(text, e1.replay_obj(pid, sc, r))


# --------------------------------------------------------------------------- known findings
def match_known(pid, engine, sc, r):
    for k in vf.load_known():
        if k.get("status") != "known" or pid not in k.get("properties", []):
            continue
        sig = k.get("signature", {})
        if sig.get("engine") != engine:
            continue
        fn = MATCHERS.get(sig.get("matcher"))
        if fn and fn(sig, sc, r):
            return (k["id"], k["text"])
    return None


MATCHERS = {}


# --------------------------------------------------------------------------- C01
@check("C01")
def c01(res, tier, rng, wd):
    thorough = tier == "thorough"
    design_server(res, "C01", ["OperationalMatchesReference", "OneReplyWhenAddressed", "ExceptionCodes", "EmptyNeverAnswered",
                               "SilentUnlessAddressed"], thorough)
    lat = e1.full_lattice(rng)
    scs = []
    sid = 0
    for framing in ("tcp", "rtu"):
        s = e1.gen_lattice_scenarios(rng, framing, per_scenario=25, sid0=sid,
                                     limit=None if thorough else 600)
        scs += s
        sid += len(s)
        n = 3000 if thorough else 60
        s = e1.gen_random_sequences(rng, framing, n, sid, lat, small=True)
        scs += s
        sid += len(s)
        s = e1.gen_random_sequences(rng, framing, 300 if thorough else 8, sid, lat, small=False, frames=(1, 8))
        scs += s
        sid += len(s)
    # a frame without a function code (length field 1) is never answered -- and the requests behind it are, in order
    for k in range(24 if thorough else 6):
        tx = rng.randrange(60000)
        fr = []
        for i in range(rng.randint(3, 9)):
            u = rng.choice([1, 1, 2, 9])
            if rng.random() < 0.4:
                fr.append([(tx + i) >> 8, (tx + i) & 255, 0, 0, 0, 1, u])
            else:
                fr.append(e1.frame("tcp", tx + i, u, e1.random_valid_pdu(rng)))
        fr.append(e1.frame("tcp", tx + 20, 1, e1.req_read(3, 0, 3)))
        data = [b for f in fr for b in f]
        steps = [e1.rx(f) for f in fr] if k % 3 == 0 else ([e1.rx(data)] if k % 3 == 1 else [e1.rx(c) for c in e1.chunk_random(rng, data)])
        scs.append(e1.scenario(sid, "tcp", [1, 2], steps, seed=rng.randrange(100), tag="c01-empty-frames-between-requests"))
        sid += 1
    # one reply per request whatever else the session is told meanwhile and at every decode level
    s = e1.gen_split_with_command(rng, 40 if thorough else 12, sid, tagp="c01")
    scs += s
    sid += len(s)
    s = e1.at_levels(rng.sample(scs, 60 if thorough else 24), [[3, 2, 2], rng.choice(e1.DECODES)], sid)
    scs += s
    sid += len(s)
    res.samples = [{"scenario": {k: scs[i][k] for k in ("framing", "units", "holes", "tag")},
                    "first_steps": scs[i]["steps"][:2]} for i in (0, len(scs) // 2)]
    rejs = e1.check_scripts(res, scs, wd, "c01")
    report_e1(res, "C01", rejs)
    # spec -> impl: the request universe of the design model, enumerated by TLC, replayed on the production session
    uni = e1.tlc_pdu_universe(wd)
    if not thorough:
        uni = rng.sample(uni, 4000)
    run_e1(res, "C01", e1.gen_universe_scenarios(rng, uni), wd, "c01universe")
    res.assumptions = ["TLC and the transcription of the Modbus rules in ModbusPdu/Mbap/Rtu/ServerRef.tla",
                       "the harness's scripted stream and recording handlers (handler semantics are defined by ServerRef.tla)",
                       "PDU space is covered class-exhaustively (boundary lattice) and by sampling, not 256^252"]
    return res.finish(rule="request class lattice (function codes x lengths x start/count boundaries x values) "
                           "plus random sequences with read-back after writes, TCP and RTU framing; a scenario is "
                           "distinct by its frames+units+framing; every scenario is non-trivial (>= 1 frame processed by the real session)")


# --------------------------------------------------------------------------- replay
def replay(pid, path, wd, seed):
    """re-run exactly the recorded scenario through its engine and let TLC judge it again"""
    obj = json.load(open(path))
    res = vf.Result(pid, "quick", seed)
    res.write_evidence = False
    eng = obj.get("engine")
    if eng == "e1":
        rejs = e1.check_scripts(res, [obj["scenario"]], wd, "replay")
        report_e1(res, pid, rejs)
    elif eng in REPLAYERS:
        REPLAYERS[eng](res, pid, obj, wd)
    else:
        raise vf.ToolError(f"unknown engine in replay file: {eng}")
    for fid, text in res.known_hits:
        print(f"KNOWN-FINDING: property={pid} {fid} {text}")
    for text, p in res.violations:
        print(f"VIOLATION property={pid} replay={p}")
        print(f"  detail: {text}")
    if not res.violations:
        print(f"replay of {path}: the property holds on this input")
    return 1 if res.violations else 0


REPLAYERS = {}


# --------------------------------------------------------------------------- self-test (run by setup)
def selftest():
    """Anti-vacuity: the binding spec <-> code must reject a corrupted or truncated recording."""
    import shutil
    import mb
    wd = os.path.join(vf.WORK, "selftest")
    shutil.rmtree(wd, ignore_errors=True)
    os.makedirs(wd)
    ok = True
    try:
        sc = e1.scenario(0, "tcp", [1], [e1.rx(mb.mbap(1, 1, mb.req_read(3, 10, 3))),
                                         e1.rx(mb.mbap(2, 1, mb.req_wsr(11, 99))),
                                         e1.rx(mb.mbap(3, 1, mb.req_read(3, 10, 3)))], seed=7)
        sp, tp, rc = e1.run_scripts([sc], wd, "self")
        lines = open(tp).read().strip().split("\n")
        r = vf.tlc_trace(e1.MODULE, e1.CFG, tp, wd)
        print(f"selftest e1: good trace accepted={r['accepted']} ({len(lines)} events)")
        ok &= r["accepted"]
        # (a) corrupt one reply byte
        bad = list(lines)
        for i, ln in enumerate(bad):
            ev = json.loads(ln)
            if ev["e"] == "tx":
                ev["bytes"][-1] ^= 1
                bad[i] = json.dumps(ev)
                break
        bp = os.path.join(wd, "bad1.ndjson")
        open(bp, "w").write("\n".join(bad) + "\n")
        r = vf.tlc_trace(e1.MODULE, e1.CFG, bp, wd)
        print(f"selftest e1: corrupted reply byte rejected={not r['accepted']} at line {r['reject_line']}")
        ok &= not r["accepted"]
        # (b) delete one handler event
        bad = [ln for ln in lines if '"e":"write"' not in ln]
        bp = os.path.join(wd, "bad2.ndjson")
        open(bp, "w").write("\n".join(bad) + "\n")
        r = vf.tlc_trace(e1.MODULE, e1.CFG, bp, wd)
        print(f"selftest e1: deleted handler call rejected={not r['accepted']} at line {r['reject_line']}")
        ok &= not r["accepted"]
        # the client and the serial tasks: each binding must reject a recording with one field changed or one event removed
        def probe(name, module, cfg, tp, mutators):
            good = vf.tlc_trace(module, cfg, tp, wd)
            lines = open(tp).read().strip().split("\n")
            print(f"selftest {name}: good trace accepted={good['accepted']} ({len(lines)} events)")
            allok = good["accepted"]
            for what, fn in mutators:
                bad = fn([json.loads(x) for x in lines])
                bp = os.path.join(wd, name.replace("/", "_").replace(" ", "_") + "-bad.ndjson")
                open(bp, "w").write("\n".join(json.dumps(x) for x in bad) + "\n")
                r = vf.tlc_trace(module, cfg, bp, wd)
                print(f"selftest {name}: {what} rejected={not r['accepted']} at line {r['reject_line']}")
                allok &= not r["accepted"]
            return allok

        def change_first(pred, fn):
            def m(evs):
                for ev in evs:
                    if pred(ev):
                        fn(ev)
                        break
                return evs
            return m

        def drop_first(pred):
            def m(evs):
                for i, ev in enumerate(evs):
                    if pred(ev):
                        return evs[:i] + evs[i + 1:]
                return evs
            return m

        csc = e2.scenario(0, [e2.cmd("enable"), e2.conn("err"), e2.tick(100), e2.conn("ok"), e2.submit(1, 3, 1, 0, 2, (), 50),
                              e2.reply([3, 4, 0, 7, 0, 8], unit=1), e2.submit(2, 3, 1, 0, 1, (), 50), e2.tick(50)],
                          mode="task", retry=(100, 400))
        sp, tp, rc = e2.run_scripts([csc], wd, "selfc")
        ok &= probe("e2/e3", e2.MODULE, e2.CFG, tp, [
            ("changed delivered value", change_first(lambda e: e["e"] == "done" and e["class"] == "ok", lambda e: e["values"].__setitem__(0, 9))),
            ("announced delay changed", change_first(lambda e: e["e"] == "listener" and e["d"] > 0, lambda e: e.__setitem__("d", e["d"] + 1))),
            ("timeout completion one ms early", change_first(lambda e: e["e"] == "done" and e["class"] == "timeout", lambda e: e.__setitem__("t", e["t"] - 1))),
            ("connection attempt removed", drop_first(lambda e: e["e"] == "attempt"))])
        ssc = e2.to_serial([csc])
        sp, tp, rc = e2.run_scripts(ssc, wd, "selfs")
        ok &= probe("serial client", e2.MODULE, e2.CFG, tp, [
            ("open attempt one ms late", change_first(lambda e: e["e"] == "attempt" and e["t"] > 0, lambda e: e.__setitem__("t", e["t"] + 1))),
            ("Open notification removed", drop_first(lambda e: e["e"] == "listener" and e["state"] == "Open"))])
        rsc = e1.rtu_task_scenario(0, [1], [{"op": "tick", "d": 100}, {"op": "port", "ok": True}, {"op": "tick", "d": 200},
                                            e1.rx(mb.rtu(1, mb.req_read(3, 10, 3))), {"op": "eof"}, {"op": "tick", "d": 100}],
                                   (100, 400), False, seed=7)
        by = e1.check_rtu_task(vf.Result("selftest", "quick", 0), [rsc], wd, "selfr")
        ok &= not by
        ok &= probe("rtu server task", e1.RTU_TASK_MODULE, e1.RTU_TASK_CFG, os.path.join(wd, "selfr.trace.ndjson"), [
            ("re-open one ms early", change_first(lambda e: e["e"] == "open" and e["t"] > 100, lambda e: e.__setitem__("t", e["t"] - 1))),
            ("reply byte changed", change_first(lambda e: e["e"] == "tx", lambda e: e["bytes"].__setitem__(3, e["bytes"][3] ^ 1))),
            ("open attempt removed", drop_first(lambda e: e["e"] == "open" and e["t"] > 0))])
    except vf.ToolError as e:
        print("selftest tool error:", e)
        return 2
    finally:
        shutil.rmtree(wd, ignore_errors=True)
    print("selftest", "ok" if ok else "FAILED")
    return 0 if ok else 2


# --------------------------------------------------------------------------- E1 based checks
E1_ASSUME = ["TLC and the transcription of the Modbus rules in ModbusPdu/Mbap/Rtu/ServerRef.tla",
             "the harness's scripted stream and recording handlers (handler / authorization semantics are defined by ServerRef.tla)",
             "byte-level input spaces are covered class-exhaustively and by sampling"]


def sample_of(scs, k=2):
    out = []
    for i in range(0, len(scs), max(1, len(scs) // k))[:k]:
        s = scs[i]
        out.append({"tag": s["tag"], "framing": s["framing"], "units": s["units"], "auth": s.get("auth"),
                    "decode": s["decode"], "first_steps": [json.dumps(x)[:160] for x in s["steps"][:3]]})
    return out


def _level_sample(res, scs, k=16):
    """a sample of the scripts for a second run at other decode levels: code that only logs is where a property
    silently stops holding (C20 says nothing observable may change)"""
    import random
    r = random.Random(res.seed * 7919 + len(scs))
    pick = [s for s in scs if "+dec" not in s.get("tag", "") and "+setdec" not in s.get("tag", "")]
    return r, r.sample(pick, min(len(pick), k))


def run_e1(res, pid, scs, wd, name, levels=True):
    res.samples += sample_of(scs)
    rejs = e1.check_scripts(res, scs, wd, name)
    report_e1(res, pid, rejs)
    if levels and pid not in ("C20", "C07") and name != "replay":
        r, pick = _level_sample(res, scs)
        if pick:
            report_e1(res, pid, e1.check_scripts(res, e1.at_levels(pick, [[3, 2, 2], r.choice(e1.DECODES)], 0), wd, name + "lv"))
            # ... and over a transport that takes only a few bytes per write call (every frame must still go out whole)
            pw = []
            for i, s in enumerate(pick):
                c = dict(s)
                c["id"] = i
                c["max_write"] = r.choice([1, 7, 64])
                c["tag"] = s["tag"] + f"+partial-writes{c['max_write']}"
                pw.append(c)
            report_e1(res, pid, e1.check_scripts(res, pw, wd, name + "pw"))


@check("C02")
def c02(res, tier, rng, wd):
    thorough = tier == "thorough"
    design_server(res, "C02", ["OperationalMatchesReference", "CallsJustified", "NoEffectWithoutCall"], thorough)
    lat = e1.full_lattice(rng)
    scs = []
    for framing in ("tcp", "rtu"):
        scs += e1.gen_lattice_scenarios(rng, framing, per_scenario=20, sid0=len(scs),
                                        limit=None if thorough else 500, auth_modes=AUTH_MODES)
        scs += e1.gen_random_sequences(rng, framing, 3000 if thorough else 60, len(scs), lat,
                                       auth_modes=AUTH_MODES, p_invalid=0.5)
    # nothing after a bad frame is processed: valid writes behind a malformed header / CRC error
    for k in range(1500 if thorough else 30):
        framing = rng.choice(["tcp", "rtu"])
        pre = [e1.random_valid_pdu(rng) for _ in range(rng.randint(0, 4))]
        post = [e1.req_wsr(rng.randrange(100), 7), e1.req_wmc(3, [True] * 5)]
        tx = rng.randrange(60000)
        fr = [e1.frame(framing, tx + i, 1, p) for i, p in enumerate(pre)]
        if framing == "tcp":
            bad = rng.choice(list(e1.BAD_HEADERS.values()))(tx + 50, 1)
        else:
            bad = e1.rtu(1, e1.random_valid_pdu(rng), bad_crc=True)
        fr += [bad] + [e1.frame(framing, tx + 60 + i, 1, p) for i, p in enumerate(post)]
        data = [b for f in fr for b in f]
        steps = [e1.rx(c) for c in (e1.chunk_random(rng, data) if rng.random() < 0.5 else [data])]
        scs.append(e1.scenario(len(scs), framing, [1, 2], steps, seed=rng.randrange(100), tag="c02-after-bad-frame"))
    # the RTU server re-opens its port after a framing error and runs the SAME session again: the requests that arrive then
    # are decoded from their own bytes only (a damaged frame, then writes with read-back; also a frame that lacks its first byte)
    for k in range(40 if thorough else 12):
        u = rng.choice([1, 2])
        victim = e1.rtu(u, rng.choice([e1.req_wmr(3, [1, 2, 3]), e1.req_wsr(7, 7), e1.req_wmc(2, [True, False, True, True]), e1.req_read(3, 0, 9)]))
        kind = rng.choice(["crc", "crc", "cut", "unknown-fc"])
        if kind == "crc":
            bad = list(victim)
            bad[rng.randrange(len(bad))] ^= 1 << rng.randrange(8)
        elif kind == "cut":
            bad = victim[:rng.randrange(2, len(victim))]
        else:
            bad = e1.rtu(u, [0x2B, 0x0E, 1, 0])
        w = e1.req_wsr(rng.randrange(50), rng.randrange(65536))
        steps = [e1.rx(bad)] + [{"op": "reopen"}] * (len(bad) + 2)
        steps += [e1.rx(e1.rtu(u, w)), e1.rx(e1.rtu(u, e1.readback_of(w))), e1.rx(e1.rtu(u, w)[1:]), e1.rx(e1.rtu(3 - u, e1.req_read(1, 0, 4)))]
        scs.append(e1.scenario(len(scs), "rtu", [1, 2], steps, seed=rng.randrange(100), tag=f"c02-rtu-reopen-after-{kind}"))
    split = e1.gen_split_with_command(rng, 60 if thorough else 16, len(scs), auth_modes=AUTH_MODES[:3], tagp="c02")
    scs += split
    # write-multiple requests that carry more data than their quantity needs, with a byte-count field that agrees with the
    # data: wrong length for the quantity -- exception 03, no handler call -- on both framings (on a serial line the field
    # delimits the frame, so the frame itself is well delimited)
    lies = [(p, n) for (p, n) in e1.wmc_lattice(rng) + e1.wmr_lattice(rng) if "bytecount and data" in n]
    for framing in ("tcp", "rtu"):
        for i in range(0, len(lies), 6):
            steps = []
            for j, (p, n) in enumerate(lies[i:i + 6]):
                steps.append(e1.rx(e1.frame(framing, 500 + j, 1, p)))
                steps.append(e1.rx(e1.frame(framing, 600 + j, 1, e1.req_read(3 if p[0] == 16 else 1, p[2], 4))))
            scs.append(e1.scenario(len(scs), framing, [1, 2], steps, seed=rng.randrange(100), tag="c02-bytecount-agrees-with-surplus-data"))
    # a unit id registered twice: ServerHandlerMap::add replaces, so only the handler registered last is "their" handler
    for k in range(12 if thorough else 4):
        framing = rng.choice(["tcp", "rtu"])
        w0 = e1.req_wsr(rng.randrange(50), rng.randrange(65536))
        ws = [w0, e1.req_wmc(3, [True, False, True]), e1.req_read(3, 0, 6), e1.req_read(1, 2, 11)]
        rng.shuffle(ws)
        steps = [e1.rx(e1.frame(framing, 100 + i, rng.choice([1, 2]), p)) for i, p in enumerate(ws + [e1.readback_of(w0)])]
        sc_ = e1.scenario(len(scs), framing, [1, 2], steps, seed=rng.randrange(100), tag="c02-unit-registered-twice")
        sc_["replaced_units"] = [1, 2] if k % 2 else [rng.choice([1, 2])]
        scs.append(sc_)
    for i, x in enumerate(scs):
        x["id"] = i
    run_e1(res, "C02", scs, wd, "c02")
    res.assumptions = E1_ASSUME
    return res.finish(rule="request class lattice and random sequences (half of the frames invalid: malformed, over-limit, "
                           "wrong unit, unknown function) under every authorization mode, plus valid writes placed behind a bad "
                           "frame; the decided object is the ordered log of handler invocations with full arguments; "
                           "distinct = distinct frames+units+framing")


@check("C05")
def c05(res, tier, rng, wd):
    thorough = tier == "thorough"
    design_readbuf(res, "C05", thorough)
    # unbounded: for every header size and maximum body length the indices stay in bounds and no read is issued with zero free space
    vf.proof_run(res, "ReadBufProof (TLAPS: buffer indices and no zero-space read for every capacity)", "ReadBufProof.tla")
    scs = e1.gen_c05(rng, 0, thorough)
    run_e1(res, "C05", scs, wd, "c05")
    run_e2(res, "C05", e2.gen_c05_client(rng, thorough), wd, "c05client")
    res.assumptions = E1_ASSUME + ["both roles: server session (E1) and client request loop (E2)"]
    return res.finish(rule="pipelined MBAP streams of 1-4 receive-buffer capacities, a max-size frame, two short frames split at "
                           "every offset, and each malformed header kind behind/ahead of valid frames; each stream under systematic "
                           "chunkings (all, 1-byte, 259/260/261, 260 then trickle, random); MbapHead only sees the concatenation, so any "
                           "dependence on the chunking is a rejection")


def serial_spacing(res, wd):
    """Beyond the listed properties: the silent interval (3.5 characters) between two transmissions on a serial line, on a
    pseudo-terminal at 50 and 110 baud, judged by SerialTiming.tla.  An evidence stage of its own: whatever it finds is
    reported there and never becomes a VIOLATION of the property whose check hosts it."""
    t0 = time.time()
    stage = {"stage": "beyond the listed properties: silent interval between serial transmissions (SerialTiming.tla)",
             "kind": "trace-validation, real pseudo-terminal", "ok": False}
    try:
        os.makedirs(wd, exist_ok=True)
        sp, tp = os.path.join(wd, "spacing.scripts.ndjson"), os.path.join(wd, "spacing.trace.ndjson")
        with open(sp, "w") as f:
            for i, baud in enumerate((50, 110)):
                f.write(json.dumps({"id": i, "units": [1], "decode": [0, 0, 0], "seed": 3, "baud": baud, "kind": "spacing"}) + "\n")
        rc, out = vf.sh([vf.harness_bin("e3_pty"), sp, tp], timeout=120)
        r = vf.tlc_trace("SerialTiming.tla", "SerialTiming.cfg", tp, wd)
        stage["ok"] = bool(r["accepted"]) and rc == 0
        stage["observed"] = [json.loads(x) for x in open(tp) if x.strip()]
    except Exception as e:      # never the host check's problem
        stage["error"] = str(e)[:300]
    stage["wall_s"] = round(time.time() - t0, 1)
    res.stages.append(stage)


@check("C06")
def c06(res, tier, rng, wd):
    thorough = tier == "thorough"
    design_crc(res, "C06", thorough)
    scs = e1.gen_c06(rng, 0, thorough)
    multi = [s for s in scs if "-good" in s["tag"] or "bytecount" in s["tag"]]        # several frames on one session
    scs += e1.at_levels(scs[:: (7 if thorough else 29)] + multi[:: (1 if thorough else 2)], [[3, 2, 2], [0, 1, 0], [1, 0, 2]], len(scs))
    run_e1(res, "C06", scs, wd, "c06")
    run_rtu_task(res, "C06", e1.gen_rtu_task_c06(rng, thorough), wd, "c06rtutask")
    run_e2(res, "C06", e2.gen_c06_client(rng, thorough), wd, "c06client")
    # both roles on a real serial device (pseudo-terminal through tokio_serial, no hook): every frame put on the bus carries the
    # CRC TLC computes, replies are accepted / requests executed only through the CRC check
    run_e2(res, "C06", e2.gen_pty_client(rng, thorough), wd, "c06ptyclient", levels=False)
    run_pty_server(res, "C06", e1.gen_pty_server(rng, thorough)[:2], wd, "c06ptyserver")
    serial_spacing(res, os.path.join(wd, "spacing"))
    res.assumptions = E1_ASSUME + ["CRC-16/MODBUS is computed by TLC from its own table (Rtu.tla), independent of the crc crate"]
    return res.finish(rule="RTU request frames of every function (min/typical/max size, broadcast): every single-bit flip "
                           "(sampled for the 250-byte frames in the quick tier), sampled double-bit flips, bursts of 2..16 bits, the same under "
                           "byte-per-byte and random chunking; expected outcome from RtuHead on the corrupted stream; every emitted frame "
                           "must equal RtuFrame(..) computed by TLC")


@check("C07")
def c07(res, tier, rng, wd):
    thorough = tier == "thorough"
    res.level = "exploration"
    decs = e1.DECODES if thorough else [[0, 0, 0], [3, 2, 2]] + [rng.choice(e1.DECODES) for _ in range(4)]
    scs = e1.gen_c07(rng, 0, 6000 if thorough else 700, decs)
    run_e1(res, "C07", scs, wd, "c07")
    run_e2(res, "C07", e2.gen_c07_client(rng, 3000 if thorough else 400), wd, "c07client")
    # "the task, its other sessions and every API handle remain usable": hostile bytes on some sessions of a real server task
    run_e4(res, "C07", e4.gen_c07_isolation(rng, 120 if thorough else 18, thorough), wd, "c07isolation")
    res.assumptions = E1_ASSUME + ["coverage of the input space is that of a structured fuzzer (grammar-aware mutation + random bytes), "
                                   "TLC decides each run: a panic, a task that never becomes idle, a watchdog hit or an unhonoured shutdown has no matching spec step",
                                   "dev profile: overflow checks and debug assertions on"]
    return res.finish(rule="hostile streams for the server session: random bytes, mutated valid traffic (bit flips, truncation, "
                           "duplication, length lies, splices), boundary addresses, both framings, sampled decode levels; after each stream a "
                           "sentinel exchange and shutdown must still be honoured; on a real TCP / TLS server task: malformed headers with "
                           "random tails on 1..3 of 2..5 sessions while the other sessions, new connections, level changes and the final "
                           "shutdown / handle drop must be served exactly as ServerTaskTrace.tla prescribes")


@check("C08")
def c08(res, tier, rng, wd):
    thorough = tier == "thorough"
    design_server(res, "C08", ["DenyHasNoEffect", "AuthBeforeEffect", "AuthExactlyOnceForWellFormed", "ExceptionCodes"], thorough)
    scs = e1.gen_c08(rng, 0, thorough)
    run_e1(res, "C08", scs, wd, "c08")
    # the certificate path: a real TLS server with authorization, roles from fixture certificates, a role-less certificate
    run_e4(res, "C08", e4.gen_c08_tls(rng), wd, "c08tls")
    res.assumptions = E1_ASSUME + ["the role string reaches the session through the verif-hooks constructor in the session-level part; the certificate path is exercised on a real TLS server (and in C09)"]
    return res.finish(rule="8 request kinds x {allow, deny, built-in read-only} x {configured, unconfigured, broadcast} unit x 6 role "
                           "strings with read-back after every write, plus random sequences under a per-request hash policy of "
                           "(kind, unit, range, seed) mixed with invalid requests; the single auth event must carry the exact arguments and precede any effect")


@check("C17")
def c17(res, tier, rng, wd):
    thorough = tier == "thorough"
    design_server(res, "C17", ["SilentUnlessAddressed", "BroadcastNeverAnswered", "BroadcastOnceEach", "BroadcastReadsIgnored"],
                  thorough, neg=True)
    scs = e1.gen_c17(rng, 0, thorough)
    scs += e1.at_levels(scs, [[3, 2, 2], [1, 0, 0]] + ([[2, 1, 1], [0, 2, 0]] if thorough else []), len(scs))
    run_e1(res, "C17", scs, wd, "c17")
    # the same discipline on a real serial device: RTU server task <-> pseudo-terminal, opened by tokio_serial (no hook)
    run_pty_server(res, "C17", e1.gen_pty_server(rng, thorough), wd, "c17pty")
    res.assumptions = E1_ASSUME
    return res.finish(rule="unit ids (quick: boundary set + 8 random, thorough: all 256) x {valid read, valid writes, handler failure, "
                           "over limit, malformed, unknown function} x handler maps of 0..3 units x RTU/TCP framing, with read-back of what "
                           "broadcast writes left on every unit; silence is observed directly at quiescence points")


@check("C20")
def c20(res, tier, rng, wd):
    thorough = tier == "thorough"
    design_client(res, "C20", [], ["DecodeUnobservable"], thorough)
    lat = e1.full_lattice(rng)
    base = []
    for framing in ("tcp", "rtu"):
        base += e1.gen_lattice_scenarios(rng, framing, per_scenario=12, sid0=0, limit=120 if thorough else 48)
        base += e1.gen_random_sequences(rng, framing, 40 if thorough else 10, 0, lat, auth_modes=AUTH_MODES[:5])
    base += e1.gen_c05(rng, 0, False)[:: (3 if thorough else 12)]
    scs = e1.with_decode_variants(rng, base, 0, positions=None if thorough else 3, all_levels=thorough)
    run_e1(res, "C20", scs, wd, "c20")
    cbase = e2.gen_c10(rng, 60 if thorough else 20) + e2.gen_c12(rng)[:: (4 if thorough else 12)] + e2.gen_c11(rng)[:4] \
        + e2.gen_c04(rng)[:: (10 if thorough else 30)]
    run_e2(res, "C20", e2.with_decode_variants(rng, cbase, positions=None if thorough else 3, all_levels=thorough), wd, "c20client")
    # a level change is not an outcome: injected at every position of runs of timeouts under a limit, it must not move the
    # point at which the connection is given up
    lim = [s for s in e2.gen_c12(rng) if s["tag"].startswith("c12-limit") or "count-per-connection" in s["tag"]]
    lim = lim[:: (2 if thorough else 7)]
    run_e2(res, "C20", e2.with_decode_variants(rng, lim, positions=None, all_levels=False), wd, "c20limits", levels=False)
    run_e4(res, "C20", e4.gen_c20_server(rng, thorough), wd, "c20server")
    # level changes while the serial tasks wait to re-open their port must not move the instant of the next attempt
    run_rtu_task(res, "C20", e1.gen_rtu_task_c14(rng, thorough)[:: (1 if thorough else 3)], wd, "c20rtuserver")
    run_e2(res, "C20", e2.gen_serial_c14(rng, thorough)[:: (1 if thorough else 3)], wd, "c20serialclient")
    res.assumptions = E1_ASSUME + ["a tracing subscriber at INFO is installed so the Display/Loggable re-parsing code runs",
                                   "server role in this engine; client role is exercised by the E2 part of this check"]
    return res.finish(rule="every base script (lattice, random sequences, chunked streams) at the lowest and highest decode level "
                           "(thorough: all 36) and with a set_decode_level command injected (quick: 3 positions, thorough: every position, "
                           "including between the chunks of a partial frame); the specification never reads the level, so one expected "
                           "behaviour serves all variants")


# --------------------------------------------------------------------------- E2 based checks
import e2  # noqa: E402

E2_ASSUME = ["TLC and Client.tla / ModbusPdu.tla (client codec, request loop)",
             "tokio's paused clock and select!; the harness's scripted stream; replies get the tx id of the last transmitted frame filled in mechanically",
             "requests enter through the public Channel / CallbackSession API over verif::ClientSession (production ClientLoop::run)"]


def report_e2(res, pid, rejs):
    for sc, r in rejs:
        text = e2.describe_rejection(sc, r)
        fid = match_known(pid, "e2", sc, r)
        if fid:
            res.known(fid[0], fid[1])
        else:
            res.violation(text, e2.replay_obj(pid, sc, r))


def sample_e2(scs, k=2):
    out = []
    for i in list(range(0, len(scs), max(1, len(scs) // k)))[:k]:
        s = scs[i]
        out.append({"tag": s["tag"], "framing": s["framing"], "queue": s["queue"], "max_timeouts": s["max_timeouts"],
                    "first_steps": [json.dumps(x)[:140] for x in s["steps"][:5]]})
    return out


def run_pty_server(res, pid, scs, wd, name):
    """the production RTU server task on a real serial device (pseudo-terminal): no hook involved"""
    res.samples += sample_of(scs)
    for sc, r in e1.check_pty_server(res, scs, wd, name):
        obj = e1.replay_obj(pid, sc, r)
        obj["engine"] = "e1-pty"
        res.violation(e1.describe_rejection(sc, r), obj)


def _replay_pty(res, pid, obj, wd):
    run_pty_server(res, pid, [obj["scenario"]], wd, "replay")


REPLAYERS["e1-pty"] = _replay_pty


def run_rtu_task(res, pid, scs, wd, name):
    """the production RTU server task (port open / re-open loop) under virtual time, judged by RtuServerTaskTrace.tla"""
    res.samples += sample_of(scs)
    for sc, r in e1.check_rtu_task(res, scs, wd, name):
        obj = e1.replay_obj(pid, sc, r)
        obj["engine"] = "e1-rtutask"
        res.violation(e1.describe_rejection(sc, r), obj)


def _replay_rtu_task(res, pid, obj, wd):
    run_rtu_task(res, pid, [obj["scenario"]], wd, "replay")


REPLAYERS["e1-rtutask"] = _replay_rtu_task


def run_e2(res, pid, scs, wd, name, levels=True):
    res.samples += sample_e2(scs)
    rejs = e2.check_scripts(res, scs, wd, name)
    report_e2(res, pid, rejs)
    if levels and pid not in ("C20", "C07") and name != "replay":
        r, pick = _level_sample(res, scs)
        if pick:
            report_e2(res, pid, e2.check_scripts(res, e2.at_levels(pick, [[3, 2, 2], r.choice(e2.DECODES)]), wd, name + "lv"))
            pw = []
            for i, s in enumerate(x for x in pick if x.get("mode", "session") == "session"):
                c = dict(s)
                c["id"] = i
                c["max_write"] = r.choice([1, 7, 64])
                c["tag"] = s["tag"] + f"+partial-writes{c['max_write']}"
                pw.append(c)
            if pw:
                report_e2(res, pid, e2.check_scripts(res, pw, wd, name + "pw"))


def _replay_e2(res, pid, obj, wd):
    rejs = e2.check_scripts(res, [obj["scenario"]], wd, "replay")
    report_e2(res, pid, rejs)


REPLAYERS["e2"] = _replay_e2


def range_constructor(res, pid, wd):
    """all 2^32 arguments of the public AddressRange constructor (2.5 s on 8 threads); the per-count summary of what was
    accepted determines the accepted set completely and is judged by RangeSummary.tla against ModbusPdu!ValidRange"""
    os.makedirs(wd, exist_ok=True)
    tp = os.path.join(wd, "range.ndjson")
    rc, out = vf.sh([vf.harness_bin("e6_range"), tp], timeout=900)
    if rc != 0:
        raise vf.ToolError("e6_range failed: " + out[-2000:])
    r = vf.tlc_trace("RangeSummary.tla", "RangeSummary.cfg", tp, wd)
    res.stages.append({"stage": "AddressRange constructor, all 2^32 arguments", "kind": "exhaustive-enumeration + trace-validation",
                       "arguments": 2 ** 32, "accepted_by_spec": r["accepted"]})
    res.evaluations += 2 ** 32
    res.distinct.add("address-range-2^32")
    if not r["accepted"]:
        summary = open(tp).read().strip()
        res.violation(f"AddressRange::try_from over all 2^32 arguments: the set of accepted (start, count) pairs is not ValidRange; summary {summary}",
                      {"property": pid, "engine": "range-constructor", "summary": json.loads(summary)})
    # the closed form used by the summary equals ValidRange (checked by TLC on a scaled address space, empty recording)
    ep = os.path.join(wd, "empty.ndjson")
    open(ep, "w").close()
    cfg = os.path.join(wd, "RangeSummary_scaled.cfg")
    c = dict(SCALED)
    c["AddrSpace"] = 32
    vf.write_cfg(cfg, "Spec", c, invariants=["ClosedFormMatchesValidRange"], extra=["CONSTRAINT Furthest", "POSTCONDITION TraceAccepted"])
    r2 = vf.tlc_trace("RangeSummary.tla", cfg, ep, wd)
    if not r2["accepted"]:
        raise vf.ToolError("RangeSummary closed form does not match ValidRange on the scaled address space")


def _replay_range(res, pid, obj, wd):
    range_constructor(res, pid, wd)


REPLAYERS["range-constructor"] = _replay_range


@check("C03")
def c03(res, tier, rng, wd):
    design_pdu(res, "C03", tier == "thorough")
    range_constructor(res, "C03", wd)
    scs = e2.gen_c03(rng, tier == "thorough")
    run_e2(res, "C03", scs, wd, "c03")
    res.assumptions = E2_ASSUME + ["AddressRange is built with its constructor (struct literals bypass validation: out of the property's scope)"]
    return res.finish(rule="the (kind, start, count / value-list length) lattice incl. 0, limit-1, limit, limit+1, address-overflow and "
                           ">65535 values, every unit id class, TCP and RTU framing, future and callback style; each request is either "
                           "transmitted as exactly EncodeRequest(..) framed by MbapFrame/RtuFrame (computed by TLC) or completes with an error "
                           "and no tx; TxBounded (<= 260 / 256 bytes) is an invariant on every state")


@check("C04")
def c04(res, tier, rng, wd):
    design_pdu(res, "C04", tier == "thorough")
    scs = e2.gen_c04(rng, tier == "thorough")
    run_e2(res, "C04", scs, wd, "c04")
    res.assumptions = E2_ASSUME
    return res.finish(rule="for every request kind and a range lattice: the correct reply, every other function byte (sampled in quick), "
                           "exception replies with many codes / truncated / with trailing bytes, the empty PDU, truncations and extensions, "
                           "byte-count field lies, data length +-1, echo variations; the value delivered to the future/callback must be exactly "
                           "DecodeResponse(request, pdu) as evaluated by TLC")


@check("C10")
def c10(res, tier, rng, wd):
    thorough = tier == "thorough"
    design_client(res, "C10", ["AtMostOnce", "NothingPendingAtEnd", "Conservation", "ShutdownOnlyWhenGone"], ["Classified"], thorough, live=True)
    scs = e2.gen_c10(rng, 3000 if thorough else 400, thorough)
    run_e2(res, "C10", scs, wd, "c10")
    # a request (or any command) handed in while a connection attempt completes in the same instant: whichever branch of
    # the task's select! wins, the request completes exactly once and with the error that tells what happened
    races = [s for s in e2.gen_c13(rng, thorough) if "race" in s["tag"]]
    for i, s in enumerate(races):
        s["id"] = i
    run_e2(res, "C10", races, wd, "c10races")
    # spec -> impl: behaviours chosen by TLC's simulation of Client.tla, replayed against the production code
    for mode in ("session", "task"):
        sim = e2.sim_scripts(wd, mode, 4000 if thorough else 500, res.seed)
        run_e2(res, "C10", sim, wd, f"c10sim{mode}")
    res.assumptions = E2_ASSUME + ["session-level part (one connection after another); the whole channel task is covered by the E3 part of this check"]
    return res.finish(rule="random scripts over {submit (future / callback), genuine / exception / stale / malformed reply, tick, "
                           "set-decode, enable/disable, EOF, read error, write error, new connection, garbage, shutdown, drop handles, abort} "
                           "with queue capacities 1/2/3/16 and timeout limits 0..3; at the end the task and all handles go away; every submitted "
                           "request must have exactly one completion of the class the specification derives (ClientTrace: OnCfg requires nothing pending)")


@check("C11")
def c11(res, tier, rng, wd):
    thorough = tier == "thorough"
    design_client(res, "C11", ["OneOutstanding"], ["OnlyMatchingCompletes", "TxAdvancesPerDequeue"], thorough,
                  neg=("notxcheck", "OnlyMatchingCompletes", False))
    # the id arithmetic at its real size (Client_MC scales the id space down to 4)
    vf.proof_run(res, "TxIdProof (TLAPS: successor, staleness by 1..65535, full circle at 65536)", "TxIdProof.tla")
    scs = e2.gen_c11(rng, thorough)
    run_e2(res, "C11", scs, wd, "c11")
    run_e2(res, "C11", e2.at_levels(scs, [[3, 2, 2], [0, 1, 0]] + ([[0, 2, 0], [1, 0, 1]] if thorough else [])), wd, "c11levels")
    if thorough:
        run_e2(res, "C11", e2.gen_c11_wrap(rng), wd, "c11wrap")
    res.assumptions = E2_ASSUME
    return res.finish(rule="frames whose transaction id is stale by k / ahead by k (k in 1,2,3,255..257,32768,65534,65535), duplicates "
                           "and unsolicited frames, delivered while a request is outstanding, while idle, and after a timeout; invalid requests "
                           "taken from the queue must still advance the id; several queued requests must be transmitted one at a time in FIFO "
                           "order; thorough: 66 000 requests across the 16-bit wrap at TxMod = 65536")


@check("C12")
def c12(res, tier, rng, wd):
    design_client(res, "C12", ["CounterRule"], ["TimeoutNeverEarly", "NoLimitNeverDrops"], tier == "thorough")
    scs = e2.gen_c12(rng, tier == "thorough")
    run_e2(res, "C12", scs, wd, "c12")
    res.assumptions = E2_ASSUME + ["virtual time: the script advances the clock explicitly, so 'exactly at the deadline' is observable"]
    return res.finish(rule="whole and split replies delivered at deadline-1 / deadline / deadline+1 for timeouts 1..1000 ms, differing "
                           "per-request timeouts, outcome sequences over {timeout, success, exception, bad reply} up to length 6 for limits "
                           "N in {none,1,2,3,5} followed by a new connection, and a partial frame left by a dying connection followed by "
                           "timely replies on the next one")


@check("C13")
def c13(res, tier, rng, wd):
    design_client(res, "C13", ["ListenerPathLegal", "FailFast", "ShutdownIsLast", "NothingPendingAtEnd"], ["NoConnectWhileDisabled"],
                  tier == "thorough")
    scs = e2.gen_c13(rng, tier == "thorough")
    run_e2(res, "C13", scs, wd, "c13")
    run_e2(res, "C13", e2.sim_scripts(wd, "task", 4000 if tier == "thorough" else 600, res.seed + 1), wd, "c13sim")
    # the RTU channel task (SerialChannelTask) through the verif-hooks port opener: the same grid and TLC-simulated behaviours
    ser = e2.to_serial([s for s in scs if "race" not in s.get("tag", "")]) + e2.to_serial(e2.gen_task_random(rng, 1500 if tier == "thorough" else 150))
    for i, s in enumerate(ser):
        s["id"] = i
    run_e2(res, "C13", ser, wd, "c13serial")
    run_e2(res, "C13", e2.sim_scripts(wd, "serial", 4000 if tier == "thorough" else 500, res.seed + 2), wd, "c13simserial")
    # the RTU server task: open / session / re-open loop, shutdown and handle drop from every state
    design_rtu_server_task(res, "C13", [], ["ShutdownHonoured", "ShutdownPrompt", "DoneIsFinal"], tier == "thorough", neg=True)
    run_rtu_task(res, "C13", e1.gen_rtu_task_random(rng, 1500 if tier == "thorough" else 200), wd, "c13rtuserver")
    # black-box: the TLS channel against a peer that accepts TCP and never starts the handshake
    run_e4(res, "C13", e4.gen_tls_client_stall(), wd, "c13tlsstall")
    # black-box: the plain TCP channel task on real sockets, a command handed in while it is held in each state
    run_e4(res, "C13", e4.gen_tcp_client_lifecycle(), wd, "c13tcpblackbox")
    res.assumptions = E2_ASSUME + ["the production TcpChannelTask obtains its connections from the verif-hooks connector "
                                   "(same select! against fail_requests) and the production SerialChannelTask opens its port through the verif-hooks "
                                   "port opener; real sockets are exercised by the black-box slice"]
    return res.finish(rule="every command / fault (submit, enable, disable, decode, shutdown, drop handles, abort, connect ok / "
                           "refused, EOF, garbage, write error, timer) at every life-cycle location (disabled, connecting, waiting after "
                           "failed connect, connected idle / awaiting, waiting after disconnect, disabled again) plus random scripts; "
                           "listener events, connection attempts and completions must be outputs of Client.tla steps; FailFast "
                           "(no request left queued while down at quiescence) is an invariant")


@check("C14")
def c14(res, tier, rng, wd):
    retry_object(res, "C14", wd, tier == "thorough")
    # unbounded: for every 1 <= min <= max and any number of failures the delay is min*2^k capped at max, within [min, max]
    vf.proof_run(res, "RetryProof (TLAPS: closed form and bounds for all min <= max)", "RetryProof.tla")
    design_client(res, "C14", [], ["DelaysFollowStrategy", "AttemptNotBeforeWake"], tier == "thorough")
    scs = e2.gen_c14(rng, tier == "thorough")
    run_e2(res, "C14", scs, wd, "c14")
    run_e2(res, "C14", e2.gen_serial_c14(rng, tier == "thorough"), wd, "c14serial")
    design_rtu_server_task(res, "C14", ["DelayBounds", "ClosedForm"], ["NeverEarly", "ResetOnSuccess"], tier == "thorough")
    run_rtu_task(res, "C14", e1.gen_rtu_task_c14(rng, tier == "thorough"), wd, "c14rtuserver")
    res.assumptions = E2_ASSUME + ["delays are observed in virtual milliseconds: the announced delay (listener) and the instant of the next connection attempt"]
    return res.finish(rule="(min, max) grid incl. min = max, max < 2 min, max not a power-of-two multiple; patterns of k failed "
                           "connects, success, lost connection (EOF, garbage, consecutive-timeout limit), disable/enable; the script waits "
                           "delay-1 and then 1 ms, so an attempt that starts earlier or later than the announced delay, a delay that is not "
                           "min*2^(k-1) capped at max, or a missing reset after success is a rejection")


# --------------------------------------------------------------------------- design-level model checking
SCALED = {"MaxReadBits": 3, "MaxReadRegs": 2, "MaxWriteCoils": 3, "MaxWriteRegs": 2, "AddrSpace": 8}


def design_server(res, pid, invariants, thorough=False, neg=False):
    c = dict(SCALED)
    c.update({"Units": "{1, 2}", "ProbeUnits": "{0, 1, 2, 3}", "Fcs": "{1, 3, 5, 6, 15, 16, 7, 129}" if not thorough else "{1, 2, 3, 4, 5, 6, 15, 16, 0, 7, 129, 255}",
              "Bytes": "{0, 1, 2, 255}", "TailBytes": "{0, 1, 255}", "HoleSet": "<- HoleSetDef",
              "Policies": '{"none", "hash", "deny", "readonly"}', "Framings": '{"tcp", "rtu"}',
              "ErrorRepliesBeforeUnitLookup": "FALSE"})
    vf.design_run(res, pid, "ServerSession_MC", "ServerSession_MC.tla", "Spec", c, invariants=invariants)
    if neg:
        c2 = dict(c)
        c2["ErrorRepliesBeforeUnitLookup"] = "TRUE"
        c2["Fcs"] = "{3, 7}"
        vf.design_run(res, pid, "ServerSession_MC-neg(F5 order)", "ServerSession_MC.tla", "Spec", c2,
                      invariants=["SilentUnlessAddressed"], expect_violation="SilentUnlessAddressed")


def design_client(res, pid, invariants, properties, thorough=False, neg=None, live=False):
    base = dict(SCALED)
    base.update({"TxMod": 4, "Bug": '"none"', "NReq": 2, "MaxCmds": 2, "MaxPeer": 2, "MaxTicks": 3, "MaxAttempts": 2,
                 "Cap": 1, "MaxTO": 1, "RMin": 1, "RMax": 2, "WithAbort": "FALSE"})
    t = dict(base)
    t["Mode"] = '"task"'
    vf.design_run(res, pid, "Client_MC-task", "Client_MC.tla", "SpecMC", t, invariants, properties)
    sss = dict(base)
    sss.update({"Mode": '"session"', "MaxPeer": 3, "WithAbort": "TRUE"})
    vf.design_run(res, pid, "Client_MC-session", "Client_MC.tla", "SpecMC", sss, invariants, properties)
    ser = dict(base)
    ser.update({"Mode": '"serial"', "MaxCmds": 3, "MaxTO": 0})
    vf.design_run(res, pid, "Client_MC-serial", "Client_MC.tla", "SpecMC", ser, invariants,
                  properties + (["OpenOutcome"] if "DelaysFollowStrategy" in properties else []))
    if thorough:
        big = dict(t)
        big.update({"NReq": 3, "MaxCmds": 3, "MaxPeer": 3, "MaxTicks": 4, "WithAbort": "TRUE", "Cap": 2, "MaxTO": 2})
        vf.design_run(res, pid, "Client_MC-task-big", "Client_MC.tla", "SpecMC", big, invariants, properties, workers=14, xmx="24g")
    if live:
        # liveness under weak fairness of the task's own steps: left alone the task comes to rest, owing nothing
        lp = ["ComesToRest", "EventuallySettled"]
        vf.design_run(res, pid, "Client_MC-task-liveness", "Client_MC.tla", "FairSpecMC", t, [], lp)
        if thorough:
            vf.design_run(res, pid, "Client_MC-serial-liveness", "Client_MC.tla", "FairSpecMC", ser, [], lp)
            vf.design_run(res, pid, "Client_MC-session-liveness", "Client_MC.tla", "FairSpecMC", sss, [], lp)
    if neg:
        bug, prop, is_inv = neg
        n = dict(sss)
        n["Bug"] = f'"{bug}"'
        vf.design_run(res, pid, f"Client_MC-neg({bug})", "Client_MC.tla", "SpecMC", n,
                      invariants=[prop] if is_inv else [], properties=[] if is_inv else [prop], expect_violation=prop)


def design_rtu_server_task(res, pid, invariants, properties, thorough=False, neg=False):
    c = {"RMin": 1, "RMax": 4, "MaxTicks": 12 if thorough else 9, "MaxToggles": 4 if thorough else 3, "MaxFaults": 3 if thorough else 2,
         "WaitRule": '"sleep_for"'}
    vf.design_run(res, pid, "RtuServerTask_MC", "RtuServerTask_MC.tla", "Spec", c, invariants, properties, workers=4)
    if thorough:
        c2 = dict(c)
        c2.update({"RMin": 2, "RMax": 5})
        vf.design_run(res, pid, "RtuServerTask_MC(min 2, max 5)", "RtuServerTask_MC.tla", "Spec", c2, invariants, properties, workers=4)
    if neg:
        n = dict(c)
        n["WaitRule"] = '"plain"'
        vf.design_run(res, pid, "RtuServerTask_MC-neg(plain sleep)", "RtuServerTask_MC.tla", "Spec", n, [], ["ShutdownPrompt"],
                      expect_violation="ShutdownPrompt", workers=2)


def design_readbuf(res, pid, thorough=False):
    inv = ["FramesArePrefix", "Complete", "ErrorIffMalformed", "NoMissedError", "NoZeroSpaceRead", "Bounds"]
    vf.design_run(res, pid, "ReadBuf_MC", "ReadBuf_MC.tla", "Spec", {"MaxLen": 3, "MaxFrames": 3, "ShiftRule": '"end"'}, inv)
    if thorough:
        vf.design_run(res, pid, "ReadBuf_MC-big", "ReadBuf_MC.tla", "Spec", {"MaxLen": 4, "MaxFrames": 4, "ShiftRule": '"end"'}, inv)
    vf.design_run(res, pid, "ReadBuf_MC-neg(shift when full)", "ReadBuf_MC.tla", "Spec",
                  {"MaxLen": 3, "MaxFrames": 3, "ShiftRule": '"full"'}, ["NoZeroSpaceRead"], expect_violation="NoZeroSpaceRead")


def design_crc(res, pid, thorough=False):
    vf.design_run(res, pid, "Crc_MC", "Crc_MC.tla", "Spec", {"N": 254 if thorough else 64}, ["Lemma"], workers=1)


def design_pdu(res, pid, thorough=False):
    inv = ["ValidIffInLimits", "EncodeParsesBack", "PduBounded", "ReplyDecodes", "InvalidNeverExecuted"]
    c = dict(SCALED)
    c["Real"] = "FALSE"
    vf.design_run(res, pid, "Pdu_MC-scaled", "Pdu_MC.tla", "Spec", c, inv)
    r = dict(vf.REAL_CONSTS)
    r["Real"] = "TRUE"
    vf.design_run(res, pid, "Pdu_MC-real-boundaries", "Pdu_MC.tla", "Spec", r, inv, workers=4)


def retry_object(res, pid, wd, thorough=False):
    """all call sequences over {failed connect, disconnect, reset} up to a length, replayed on the real objects"""
    import itertools
    grid = [(1, 1), (1, 8), (10, 15), (100, 100), (100, 250), (100, 800), (3, 1000), (1000, 60000)]
    maxlen = 7 if thorough else 6
    sp = os.path.join(wd, "retry.scripts.ndjson")
    tp = os.path.join(wd, "retry.trace.ndjson")
    n = 0
    with open(sp, "w") as f:
        for (mn, mx) in grid:
            for ln in range(1, maxlen + 1):
                for seq in itertools.product("fdr", repeat=ln):
                    f.write(json.dumps({"min": mn, "max": mx, "calls": "".join(seq)}) + "\n")
                    n += 1
        for ln in range(1, maxlen + 1):
            for seq in itertools.product("fdr", repeat=ln):
                f.write(json.dumps({"min": 1000, "max": 60000, "default_strategy": True, "calls": "".join(seq)}) + "\n")
                n += 1
        f.write(json.dumps({"min": 1, "max": 1000000, "calls": "f" * 25 + "r" + "f" * 3}) + "\n")
        # a long outage: far more consecutive failures than any counter or shift width in the implementation
        for (mn, mx) in ((1, 1000000), (100, 250), (1000, 60000), (7, 7)):
            f.write(json.dumps({"min": mn, "max": mx, "calls": "f" * 80 + "d" + "f" * 70 + "r" + "f" * 3}) + "\n")
            n += 1
        f.write(json.dumps({"min": 1000, "max": 60000, "default_strategy": True, "calls": "f" * 140}) + "\n")
        f.write(json.dumps({"min": 3, "max": 2000000, "micros": True, "calls": "f" * 90}) + "\n")
        n += 2
        # delays that are not whole milliseconds (units: microseconds)
        for (mn, mx) in ((1500, 6000), (500, 4000), (1, 7), (999, 1000001), (2500, 2500)):
            for ln in range(1, 6):
                for seq in itertools.product("fdr", repeat=ln):
                    f.write(json.dumps({"min": mn, "max": mx, "micros": True, "calls": "".join(seq)}) + "\n")
                    n += 1
    rc, out = vf.sh([vf.harness_bin("e3_retry"), sp, tp], timeout=600)
    if rc != 0:
        raise vf.ToolError("e3_retry failed: " + out[-2000:])
    stats, rejs = vf.validate_trace("Retry.tla", "Retry.cfg", tp, wd, boundary='"call":"new"')
    res.add_trace_stats("retry-object", stats)
    res.evaluations += n
    res.distinct.add("retry-object-sequences-%d" % n)
    res.samples.append({"retry_object_script": {"min": 100, "max": 250, "calls": "ffdfrf"}})
    for r in rejs:
        res.violation(f"retry strategy object: call #{r['line_in_scenario']} {json.dumps(r['unmatched_event'])} after "
                      f"{[x.get('call') for x in r['matched_prefix_tail']]} is not what Retry.tla prescribes in state {r['spec_state']}",
                      {"property": pid, "engine": "retry-object", "trace": r["scenario_trace"], "spec_state": r["spec_state"]})


def _replay_design(res, pid, obj, wd):
    vf.design_run(res, pid, "replay", obj["module"], obj["spec"], obj["constants"], obj.get("invariants", ()),
                  obj.get("properties", ()), workdir=wd)


def _replay_retry(res, pid, obj, wd):
    evs = [json.loads(x) for x in obj["trace"]]
    calls = "".join({"failed": "f", "disconnect": "d", "reset": "r"}[e["call"]] for e in evs if e["call"] != "new")
    sp, tp = os.path.join(wd, "r.s"), os.path.join(wd, "r.t")
    open(sp, "w").write(json.dumps({"min": evs[0]["min"], "max": evs[0]["max"], "calls": calls}) + "\n")
    rc, out = vf.sh([vf.harness_bin("e3_retry"), sp, tp])
    stats, rejs = vf.validate_trace("Retry.tla", "Retry.cfg", tp, wd, boundary='"call":"new"')
    for r in rejs:
        res.violation("retry strategy object deviates from Retry.tla", {"property": pid, "engine": "retry-object",
                                                                        "trace": r["scenario_trace"], "spec_state": r["spec_state"]})


REPLAYERS["tlc-design"] = _replay_design
REPLAYERS["retry-object"] = _replay_retry


# --------------------------------------------------------------------------- E4 based checks
import e4  # noqa: E402

E4_ASSUME = ["TLC and ServerTaskTrace.tla / AddressFilter.tla / TlsAdmission.tla",
             "real loopback sockets and wall-clock waits (generous upper bounds; only ordering and presence/absence are judged)",
             "hook events (filter decision, tracker add/remove) are emitted by the server task at the point where they take effect"]


def report_e4(res, pid, rejs):
    for sc, r in rejs:
        text = e4.describe_rejection(sc, r)
        fid = match_known(pid, "e4", sc, r)
        if fid:
            res.known(fid[0], fid[1])
        else:
            res.violation(text, e4.replay_obj(pid, sc, r))


def run_e4(res, pid, scs, wd, name):
    for i in list(range(0, len(scs), max(1, len(scs) // 2)))[:2]:
        s = scs[i]
        res.samples.append({"tag": s["tag"], "variant": s["variant"], "api": s["api"], "max_sessions": s["max_sessions"],
                            "filter": s["filter"], "first_steps": [json.dumps(x)[:120] for x in s["steps"][:4]]})
    rejs = e4.check_scripts(res, scs, wd, name)
    report_e4(res, pid, rejs)


def _replay_e4(res, pid, obj, wd):
    report_e4(res, pid, e4.check_scripts(res, [obj["scenario"]], wd, "replay"))


REPLAYERS["e4"] = _replay_e4


@check("C15")
def c15(res, tier, rng, wd):
    thorough = tier == "thorough"
    c = {"MaxSessions": 2, "MaxConns": 4 if thorough else 3, "QCap": 2, "SCap": 2, "CCap": 1, "MaxDecodes": 5 if thorough else 4,
         "MaxCloses": 2, "FanOut": '"try"'}
    vf.design_run(res, "C15", "ServerTask_MC", "ServerTask_MC.tla", "Spec", c, ["Bounded", "AgeOrdered", "QueuesBounded"],
                  ["ShutdownHonoured", "SessionsClosed"], workers=8)
    c0 = dict(c)
    c0["MaxSessions"] = 0
    vf.design_run(res, "C15", "ServerTask_MC-max0", "ServerTask_MC.tla", "Spec", c0, ["Bounded", "AgeOrdered", "QueuesBounded"],
                  ["ShutdownHonoured"], workers=8)
    c2 = dict(c)
    c2["FanOut"] = '"await"'
    vf.design_run(res, "C15", "ServerTask_MC-neg(awaiting fan-out, F14)", "ServerTask_MC.tla", "Spec", c2, [], ["ShutdownHonoured"],
                  expect_violation="ShutdownHonoured", workers=8)
    vf.proof_run(res, "TrackerProof (TLAPS: table never above max, eviction only when full and only of the oldest, for all max_sessions)",
                 "TrackerProof.tla")
    scs = e4.gen_c15(rng, 300 if thorough else 50, thorough)
    run_e4(res, "C15", scs, wd, "c15")
    # spec -> impl: behaviours of the design model chosen by TLC's simulation, replayed on the production server task
    run_e4(res, "C15", e4.sim_scripts(wd, 1500 if thorough else 150, res.seed), wd, "c15sim")
    tls = e4.gen_c15_tls(rng)
    for i, s in enumerate(tls):
        s["id"] = 10000 + i
    run_e4(res, "C15", tls, wd, "c15tls")
    res.assumptions = E4_ASSUME
    return res.finish(rule="random histories over {connect from aliased loopback sources, request (reads / writes on the shared handlers), "
                           "peer close, malformed header, half frame, set-decode, shutdown, handle drop} with max_sessions in {0,1,2,3}, "
                           "plus max+3 connections in a row, plus TLS / TLS+authz servers with sessions stalled in the handshake; the tracker "
                           "hook events give size <= max and the evicted id at every step, the peers' view gives reply / EOF / refused")


@check("C16")
def c16(res, tier, rng, wd):
    thorough = tier == "thorough"
    scs = e4.gen_c16(rng, thorough)
    run_e4(res, "C16", scs, wd, "c16")
    rejs = e4.check_scripts(res, e4.gen_wildcards(rng, 30000 if thorough else 3000), wd, "c16wild")
    report_e4(res, "C16", rejs)
    res.assumptions = E4_ASSUME + ["source addresses are loopback aliases (127.x.y.z, ::1) bound before connect"]
    return res.finish(rule="filters {any, exact v4/v6, sets, wildcard lattice over literal / '*' fields} x source addresses "
                           "{127.0.0.1, 127.0.0.2, 127.1.2.3, 127.255.255.254, 127.0.1.2, 127.9.0.2, ::1} x server variants {TCP, TLS, TLS+authz} x "
                           "{Rust constructors, C ABI constructors}; a matching peer is tracked and answered, a non-matching peer sees EOF "
                           "without a single byte; the decision must equal AddressFilter!Matches evaluated by TLC")


@check("C09")
def c09(res, tier, rng, wd):
    thorough = tier == "thorough"
    c = {"X": 0}
    vf.design_run(res, "C09", "TlsAdmission_MC", "TlsAdmission_MC.tla", "Spec", {}, 
                  ["NeverBelowMin", "OnlyAuthenticated", "AlwaysWhenValidAndAtOrAboveMin", "RoleIsTheSingleExtension"], workers=2)
    scs = e4.gen_c09_server(rng, thorough)
    run_e4(res, "C09", scs, wd, "c09server")
    cl = e4.gen_c09_client(rng, thorough)
    for i, sc_ in enumerate(cl):
        sc_["id"] = 5000 + i
    run_e4(res, "C09", cl, wd, "c09client")
    res.assumptions = E4_ASSUME + ["rustls / webpki / ring internals are trusted: checked is rodbus's configuration of them and the admission outcome",
                                   "fixture certificates are pre-generated (fixtures/gen_certs.sh) with the facts tabulated in TlsAdmission!CertInfo",
                                   "the harness peer is built directly on tokio-rustls with pinned protocol versions"]
    return res.finish(rule="configuration grid {authority ca1 / ca2, self-signed expected / expired} x {min 1.2, 1.3} x {TLS, TLS+authz} x "
                           "{Rust, C ABI (sampled in quick)} against peers {12 client certificates incl. wrong authority, expired, not yet valid, "
                           "no role, two roles, other self-signed, none} x offered versions {1.2}, {1.3}, {1.2,1.3}: real handshakes on loopback; "
                           "outcome and negotiated version must equal TlsAdmission!Admit; a Modbus request on a rejected connection is never "
                           "processed; the role seen by the authorization handler must be the certificate's")


# --------------------------------------------------------------------------- E5 based checks
import e5  # noqa: E402

E5_ASSUME = ["TLC and FfiTrace.tla (conversion tables, completion protocol, database maps) with ModbusPdu.tla",
             "the C ABI is exercised through the extern \"C\" functions of rodbus-ffi linked as an rlib (same symbols the C/C++/.NET/Java wrappers call); the wrappers above it are not exercised",
             "real loopback sockets and wall-clock waits with generous upper bounds"]


def report_e5(res, pid, rejs):
    for sc, r in rejs:
        text = e5.describe_rejection(sc, r)
        fid = match_known(pid, "e5", sc, r)
        if fid:
            res.known(fid[0], fid[1])
        else:
            res.violation(text, e5.replay_obj(pid, sc, r))


def _replay_e5(res, pid, obj, wd):
    report_e5(res, pid, e5.check_scripts(res, [obj["scenario"]], wd, "replay"))


REPLAYERS["e5"] = _replay_e5


@check("C18")
def c18(res, tier, rng, wd):
    thorough = tier == "thorough"
    scs = e5.gen_write_results(rng, thorough) + e5.gen_client_ops(rng, thorough)
    for i, s in enumerate(scs):
        s["id"] = i
    res.samples += [{"tag": s["tag"], "first_steps": [json.dumps(x)[:140] for x in s["steps"][:4]]} for s in scs[:3]]
    report_e5(res, "C18", e5.check_scripts(res, scs, wd, "c18"))
    # configuration passes through unchanged: the TLS client channel built by rodbus_client_channel_create_tls, judged by TlsAdmission.tla
    run_e4(res, "C18", e4.gen_cabi_tls_client(rng, thorough), wd, "c18tlsclient")
    res.assumptions = E5_ASSUME
    return res.finish(rule="(1) all four write callbacks x WriteResult {success, every standard exception, raw codes} behind a C-ABI "
                           "server, observed by a raw TCP client; (2) 8 client operations x {genuine reply, exception replies with standard "
                           "and raw codes, malformed reply, wrong function, silence, connection loss, not connected, disabled, destroyed "
                           "channel} through rodbus_client_channel_* against a scripted peer: return code, wire bytes, the callback "
                           "invoked, its payload, and exactly one completion + one on_destroy per call; (3) argument errors (zero / "
                           "overflowing ranges, over-limit counts, empty lists, null channel): the completion must still fire exactly once; "
                           "(4) TLS client configuration through the C ABI (dns_name x allow_server_name_wildcard x certificate mode x minimum "
                           "version) against a rustls server peer presenting matching / other-name / other-CA / self-signed certificates: "
                           "admission must be what TlsAdmission.tla prescribes for the equivalent Rust configuration")


@check("C19")
def c19(res, tier, rng, wd):
    thorough = tier == "thorough"
    vf.design_run(res, "C19", "FfiDatabase_MC", "FfiDatabase_MC.tla", "Spec", {"Writers": "{1, 2}", "Block": 3, "LockMode": '"txn"'},
                  ["ReadsSeeWholeTransactions", "MutualExclusion"], workers=4)
    vf.design_run(res, "C19", "FfiDatabase_MC-neg(lock per op)", "FfiDatabase_MC.tla", "Spec",
                  {"Writers": "{1, 2}", "Block": 3, "LockMode": '"op"'}, ["ReadsSeeWholeTransactions"],
                  expect_violation="ReadsSeeWholeTransactions", workers=4)
    scs = e5.gen_db_seq(rng, 1500 if thorough else 25, thorough) + e5.gen_db_stress(thorough)
    res.samples += [{"tag": s["tag"], "first_steps": [json.dumps(x)[:160] for x in s.get("steps", [])[:3]]} for s in scs[:2]]
    report_e5(res, "C19", e5.check_scripts(res, scs, wd, "c19"))
    res.assumptions = E5_ASSUME + ["atomicity on the real code is stress-sampled (no deterministic scheduler between tokio, std::sync::Mutex "
                                   "and FFI threads); the all-interleavings argument is the design-level model FfiDatabase_MC with its negative control"]
    return res.finish(rule="random sequences of add / update / delete / get over 4 point types x 7 indices inside "
                           "rodbus_server_update_database transactions interleaved with client reads straddling absent points (return "
                           "values and replies judged by the per-type map of FfiTrace.tla); stress: writer threads set a 125-register "
                           "(2000-coil) block to one common value per transaction while TCP clients read the whole block: no torn read")
