"""One function per property.  Each builds inputs, runs the production code through a harness
engine, lets TLC judge (design-level model checking + trace validation) and fills a vf.Result."""
import json
import os
import random

import vf
import e1

CHECKS = {}


def check(pid):
    def deco(f):
        CHECKS[pid] = f
        return f
    return deco


AUTH_MODES = [None,
              {"policy": "allow", "seed": 0, "role": "operator"},
              {"policy": "deny", "seed": 0, "role": "viewer"},
              {"policy": "readonly", "seed": 0, "role": ""},
              {"policy": "hash", "seed": 1, "role": "operator"},
              {"policy": "hash", "seed": 2, "role": "a-rather-long-role-name-" + "x" * 180}]


def report_e1(res, pid, rejs):
    for sc, r in rejs:
        text = e1.describe_rejection(sc, r)
        fid = match_known(pid, "e1", sc, r)
        if fid:
            res.known(fid[0], fid[1])
        else:
            res.violation(text, e1.replay_obj(pid, sc, r))


# --------------------------------------------------------------------------- known findings
def match_known(pid, engine, sc, r):
    for k in vf.load_known():
        if k.get("status") != "known" or pid not in k.get("properties", []):
            continue
        sig = k.get("signature", {})
        if sig.get("engine") != engine:
            continue
        fn = MATCHERS.get(sig.get("matcher"))
        if fn and fn(sig, sc, r):
            return (k["id"], k["text"])
    return None


MATCHERS = {}


# --------------------------------------------------------------------------- C01
@check("C01")
def c01(res, tier, rng, wd):
    thorough = tier == "thorough"
    lat = e1.full_lattice(rng)
    scs = []
    sid = 0
    for framing in ("tcp", "rtu"):
        s = e1.gen_lattice_scenarios(rng, framing, per_scenario=25, sid0=sid,
                                     limit=None if thorough else 600)
        scs += s
        sid += len(s)
        n = 400 if thorough else 60
        s = e1.gen_random_sequences(rng, framing, n, sid, lat, small=True)
        scs += s
        sid += len(s)
        s = e1.gen_random_sequences(rng, framing, 40 if thorough else 8, sid, lat, small=False, frames=(1, 8))
        scs += s
        sid += len(s)
    res.samples = [{"scenario": {k: scs[i][k] for k in ("framing", "units", "holes", "tag")},
                    "first_steps": scs[i]["steps"][:2]} for i in (0, len(scs) // 2)]
    rejs = e1.check_scripts(res, scs, wd, "c01")
    report_e1(res, "C01", rejs)
    res.assumptions = ["TLC and the transcription of the Modbus rules in ModbusPdu/Mbap/Rtu/ServerRef.tla",
                       "the harness's scripted stream and recording handlers (handler semantics are defined by ServerRef.tla)",
                       "PDU space is covered class-exhaustively (boundary lattice) and by sampling, not 256^252"]
    return res.finish(rule="request class lattice (function codes x lengths x start/count boundaries x values) "
                           "plus random sequences with read-back after writes, TCP and RTU framing; a scenario is "
                           "distinct by its frames+units+framing; every scenario is non-trivial (>= 1 frame processed by the real session)")


# --------------------------------------------------------------------------- self-test (run by setup)
def selftest():
    """Anti-vacuity: the binding spec <-> code must reject a corrupted or truncated recording."""
    import shutil
    import mb
    wd = os.path.join(vf.WORK, "selftest")
    shutil.rmtree(wd, ignore_errors=True)
    os.makedirs(wd)
    ok = True
    try:
        sc = e1.scenario(0, "tcp", [1], [e1.rx(mb.mbap(1, 1, mb.req_read(3, 10, 3))),
                                         e1.rx(mb.mbap(2, 1, mb.req_wsr(11, 99))),
                                         e1.rx(mb.mbap(3, 1, mb.req_read(3, 10, 3)))], seed=7)
        sp, tp, rc = e1.run_scripts([sc], wd, "self")
        lines = open(tp).read().strip().split("\n")
        r = vf.tlc_trace(e1.MODULE, e1.CFG, tp, wd)
        print(f"selftest e1: good trace accepted={r['accepted']} ({len(lines)} events)")
        ok &= r["accepted"]
        # (a) corrupt one reply byte
        bad = list(lines)
        for i, ln in enumerate(bad):
            ev = json.loads(ln)
            if ev["e"] == "tx":
                ev["bytes"][-1] ^= 1
                bad[i] = json.dumps(ev)
                break
        bp = os.path.join(wd, "bad1.ndjson")
        open(bp, "w").write("\n".join(bad) + "\n")
        r = vf.tlc_trace(e1.MODULE, e1.CFG, bp, wd)
        print(f"selftest e1: corrupted reply byte rejected={not r['accepted']} at line {r['reject_line']}")
        ok &= not r["accepted"]
        # (b) delete one handler event
        bad = [ln for ln in lines if '"e":"write"' not in ln]
        bp = os.path.join(wd, "bad2.ndjson")
        open(bp, "w").write("\n".join(bad) + "\n")
        r = vf.tlc_trace(e1.MODULE, e1.CFG, bp, wd)
        print(f"selftest e1: deleted handler call rejected={not r['accepted']} at line {r['reject_line']}")
        ok &= not r["accepted"]
    except vf.ToolError as e:
        print("selftest tool error:", e)
        return 2
    finally:
        shutil.rmtree(wd, ignore_errors=True)
    print("selftest", "ok" if ok else "FAILED")
    return 0 if ok else 2
