"""Modbus byte-level helpers for the input generators (generation only; nothing here judges)."""
import struct

def crc16(data):
    crc = 0xFFFF
    for b in data:
        crc ^= b
        for _ in range(8):
            crc = (crc >> 1) ^ 0xA001 if crc & 1 else crc >> 1
    return crc

def mbap(tx, unit, pdu, proto=0, length=None):
    n = len(pdu) + 1 if length is None else length
    return [(tx >> 8) & 255, tx & 255, (proto >> 8) & 255, proto & 255, (n >> 8) & 255, n & 255, unit & 255] + list(pdu)

def rtu(unit, pdu, bad_crc=False):
    body = [unit & 255] + list(pdu)
    c = crc16(body)
    if bad_crc:
        c ^= 0x0100
    return body + [c & 255, c >> 8]

def u16(x):
    return [(x >> 8) & 255, x & 255]

def pack_bits(bits):
    out = []
    for i in range(0, len(bits), 8):
        b = 0
        for j, v in enumerate(bits[i:i + 8]):
            if v:
                b |= 1 << j
        out.append(b)
    return out

def req_read(fc, start, count):
    return [fc] + u16(start) + u16(count)

def req_wsc(index, on, raw=None):
    return [5] + u16(index) + u16(raw if raw is not None else (0xFF00 if on else 0))

def req_wsr(index, value):
    return [6] + u16(index) + u16(value)

def req_wmc(start, bits, count=None, bytecount=None):
    data = pack_bits(bits)
    c = len(bits) if count is None else count
    bc = len(data) if bytecount is None else bytecount
    return [15] + u16(start) + u16(c) + [bc & 255] + data

def req_wmr(start, regs, count=None, bytecount=None):
    data = []
    for r in regs:
        data += u16(r)
    c = len(regs) if count is None else count
    bc = len(data) if bytecount is None else bytecount
    return [16] + u16(start) + u16(c) + [bc & 255] + data

def frame(framing, tx, unit, pdu):
    return mbap(tx, unit, pdu) if framing == "tcp" else rtu(unit, pdu)
