#!/usr/bin/env python3
"""Regenerates MANIFEST.json from the table below (run after adding / changing a check)."""
import json
import os
import sys

ROOT = os.path.dirname(os.path.dirname(os.path.abspath(__file__)))

TRUST = "trusted: TLC 1.8 and the CommunityModules; the transcription of the Modbus rules into the TLA+ modules; the harness's scripted transports and recording handlers; "

CLAIMS = {
    "C01": ("e1-session", "model_checking",
            "ServerRef.tla (the declarative reference server) evaluated by TLC judges every recorded execution of the production session task: the request class lattice and random request sequences (with read-back after writes) on TCP and RTU framing are driven through SessionTask::run and each rx/tx/handler event is matched against the reference; exhaustive over the bounded design model, class-exhaustive + sampled over real-size inputs",
            "§7 C01", TRUST + "PDU space covered by boundary classes and sampling"),
    "C02": ("e1-session", "model_checking",
            "same engine as C01; the decided object is the ordered log of authorization and handler invocations with full arguments (reads compressed losslessly): every call must be the next effect the reference prescribes, and no call may appear for malformed / over-limit / wrong-unit / unknown-function / post-bad-frame input (incl. write-multiple requests whose byte count agrees with surplus data); a unit registered twice is served by the handler registered last; a lying byte-count FIELD with the right real length is an open case (strict and lenient servers both accepted)",
            "§7 C02", TRUST + "handler semantics (DefBit/DefReg/holes) are defined by ServerRef.tla and implemented by the harness"),
    "C05": ("e1-session", "model_checking",
            "MbapHead is defined on the concatenated stream only; pipelined streams of 1-4 buffer capacities and every malformed header kind are delivered under systematic chunkings (1-byte, 259/260/261, split at every offset, buffer-filling) and must validate against that chunk-oblivious reference",
            "§7 C05", TRUST + "chunkings are enumerated systematically for short streams and sampled for long ones"),
    "C06": ("e1-session", "model_checking",
            "CRC-16/MODBUS computed by TLC itself (Rtu.tla): every frame the session emits must equal RtuFrame(..), and corrupted request frames (all 1-bit, sampled 2-bit, bursts <= 16 bits, several chunkings) must produce exactly what RtuHead prescribes on the corrupted stream (no call, no reply, session error); damage in the byte-count field followed by as many port re-opens as the reader needs (session level and the RTU server task under virtual time); both roles additionally on a real serial device (pseudo-terminal opened by tokio_serial, no hook): RTU channel task and RTU server task, frames on the bus compared with RtuFrame(..)",
            "§7 C06", TRUST + "long-frame corruptions are sampled in the quick tier"),
    "C07": ("e1-session", "exploration",
            "structured fuzzing (random bytes, grammar-aware mutation, boundary addresses, decode levels, both framings) of the production session under overflow checks; TLC validates every run against the total reference: a panic, a task that never becomes idle, or an unhonoured shutdown has no matching specification step; RTU length boundary in both roles; peers that dribble well-formed foreign frames faster than the timeout; hostile bytes on some sessions of a real TCP / TLS server task while the others must be served (isolation)",
            "§7 C07", TRUST + "input coverage is that of a fuzzer, not of a model checker"),
    "C08": ("e1-session", "model_checking",
            "authorization modelled in ServerRef.tla (policy functions of kind, unit, range, role); grid of 8 kinds x allow/deny/read-only x configured/unconfigured/broadcast unit x role strings, plus random per-request hash policies; trace validation requires the single auth event with exact arguments before any effect and exception 01 with no handler call on deny",
            "§7 C08", TRUST + "role strings are injected through the verif-hooks constructor"),
    "C17": ("e1-session", "model_checking",
            "unit-id sweep (boundary ids quick, all 256 thorough) x request classes x handler maps of 0-3 units on RTU and TCP framing; silence is observed at quiescence points, broadcast writes must appear exactly once per configured unit in the handler log and never be answered; the same discipline black-box: the RTU server task on a pseudo-terminal through tokio_serial (unit ids, broadcast, exceptions, maximum-size and split frames)",
            "§7 C17", TRUST + "absence is established under virtual time on a current-thread runtime"),
    "C20": ("e1-session", "model_checking",
            "the specification never reads the decode level, so one reference behaviour serves every level: base scripts are replayed at lowest/highest (thorough: all 36) levels and with set_decode_level injected at sampled/every position (also mid-frame) with a tracing subscriber installed; all must validate against the same reference",
            "§7 C20", TRUST + "server role here; client role added by the E2 engine"),
}

CLAIMS.update({
    "C03": ("e2-client", "model_checking",
            "Client.tla + ModbusPdu.tla (EncodeRequest / ClientRequestValid) evaluated by TLC judge every recorded execution of the production request loop: the request lattice (kind x start x count / value-list length incl. 0, limit+-1, overflow, > 65535 values) is submitted through Channel and CallbackSession on TCP and RTU framing; each request must be transmitted as exactly the TLC-computed frame or complete with an error and no tx; TxBounded is an invariant on every state; one frame per request also with stale / future / partial frames arriving meanwhile; all 2^32 arguments of the AddressRange constructor are enumerated on the real code and the per-count summary of what was accepted is judged by RangeSummary.tla against ModbusPdu!ValidRange",
            "§7 C03", TRUST + "AddressRange built with its constructor; FfiChannel path covered by the C18 engine"),
    "C04": ("e2-client", "model_checking",
            "for every request kind and a range lattice the reply classes (correct, other function bytes, exceptions with all/sampled codes, truncated / extended, byte-count lies, echo variations) are delivered to the production loop; the value handed to the future / callback must be exactly DecodeResponse(request, pdu) as evaluated by TLC (open case: a reply of the right length whose byte-count field disagrees may be taken or refused)",
            "§7 C04", TRUST + "reply space covered by classes + sampling"),
    "C10": ("e2-client", "model_checking",
            "Client.tla is an explicit state machine of the channel task (queue, blocked senders, in-flight request, timers, promise drops); random interleavings of submissions, replies, timeouts, I/O faults, enable/disable, decode, shutdown, handle drops and abort are recorded under virtual time and validated by TLC: each completion must be the output of a specification step (class included), each request completes exactly once (a second completion has no step, a missing one blocks the next scenario boundary); design level: Client_MC in task / session / serial mode incl. liveness under fairness (the task comes to rest owing nothing); behaviours simulated by TLC from Client.tla replayed on the production task; command / connect-completion races",
            "§7 C10", TRUST + "tokio paused clock; lock-step harness (inputs only at quiescence)"),
    "C11": ("e2-client", "model_checking",
            "transaction-id discipline of Client.tla at TxMod = 65536 validated on recorded runs: stale / future / duplicate / unsolicited frames at every relation to the outstanding request, invalid requests that still consume an id, FIFO transmission with one outstanding request (invariant OneOutstanding), and (thorough) 66 000 requests across the 16-bit wrap; late replies straddling the deadline; the id sequence across connections; the id arithmetic at its real size proved with TLAPS (TxIdProof)",
            "§7 C11", TRUST + "tx ids of scripted replies are derived mechanically from the last transmitted frame"),
    "C12": ("e2-client", "model_checking",
            "virtual time makes 'exactly at the deadline' observable: Timeout is enabled iff now >= deadline and every input/quiescence event requires that no task step is enabled, so an early, late or extended timeout, a missed drop after N consecutive timeouts or a counter that is not restarted is a rejection; whole and split replies at deadline-1/0/+1, foreign frames that must not move the deadline, outcome sequences x limits, partial frame across reconnect, discarded frames that are not outcomes, and a transport that takes the request late (the timeout runs from the transmission: WriteHold in Client.tla, held writes in the scripted stream)",
            "§7 C12", TRUST + "time advances only by scripted ticks"),
    "C13": ("e3-lifecycle", "model_checking",
            "the life-cycle part of Client.tla (Start, BeginConnect, Attempt, FailNext, Connected, ConnFailed, WaitExpired, Post, Stopping) judges recorded runs of the production TcpChannelTask and (mode serial: PortState listener, synchronous open) of the production SerialChannelTask under virtual time: every command and fault at every life-cycle location, random scripts and behaviours simulated by TLC from the same specification; RtuServerTaskTrace.tla does the same for the RTU server task (open / session / re-open loop, shutdown and handle drop from every state); listener events, connection attempts and completions must be outputs of specification steps in that order; FailFast is an invariant; inputs require quiescence, so a request left queued while down or an attempt while disabled is a rejection",
            "§7 C13", TRUST + "connections come from the verif-hooks connector (same select! against the command queue as the production connect()); serial ports come from the verif-hooks port opener (a scripted stream instead of tokio_serial::SerialStream)"),
    "C14": ("e3-lifecycle", "model_checking",
            "retry arithmetic of Client.tla (retryCur doubling capped at max, reset on Connected, min after disconnect, wake = now + announced delay) validated on recorded runs over a (min,max) grid and failure/success/disconnect patterns with waits of delay-1 then 1 ms under virtual time: the announced delay and the instant of the next attempt must be exactly the specification's; the same for the RTU channel task (Client.tla mode serial) and the RTU server task (RtuServerTaskTrace.tla: port missing / present / unplugged patterns, instant of every open attempt)",
            "§7 C14", TRUST + "virtual milliseconds"),
    "C09": ("e4-servertask", "model_checking",
            "TlsAdmission.tla is the admission reference (minimum version, certificate validity per mode, single role extension); TlsAdmission_MC checks it against the statements of C09 over the whole configuration x peer grid; real handshakes on loopback between rodbus TLS servers (Rust and C ABI constructors, authority and self-signed modes, min 1.2 / 1.3, with and without authorization) and an independently configured rustls peer with pinned versions and fixture certificates are validated by TLC: outcome, negotiated version and the role seen by the authorization handler",
            "§7 C09", TRUST + "rustls/webpki/ring internals; fixture certificate facts tabulated in TlsAdmission!CertInfo; both roles: rodbus servers against a rustls client peer and the rodbus TLS client against a rustls server peer"),
    "C15": ("e4-servertask", "model_checking",
            "ServerTaskTrace.tla models the tracker (ids in age order), per-connection fate and the shared database; random histories of connects / requests / closes / malformed headers / half frames / decode changes / shutdown / handle drop with max_sessions 0..3 on loopback TCP, and TLS servers with sessions stalled in the handshake, are validated by TLC using the tracker hook events (size <= max, evicted = oldest at every step) and the peers' view (reply computed by the reference server, EOF, refused); a session may leave the tracker only for a cause on its own connection (isolation); design level: ServerTask_MC (bounded queues, peers that stop reading or close, liveness of shutdown, negative control F14) and behaviours simulated from it by TLC (ServerTask_Sim) replayed on the production server task; close bursts also on a current-thread runtime, where they are deterministic; the table's invariants (never above max, eviction only when full and only of the oldest) proved with TLAPS for every max_sessions (TrackerProof)",
            "§7 C15", TRUST + "eviction / close timing is observed through hook events and bounded waits (no deterministic scheduler under tokio)"),
    "C16": ("e4-servertask", "model_checking",
            "AddressFilter.tla (Matches, WildcardClass) evaluated by TLC judges the hook-reported filter decision and the peer's view for filters {any, exact, set, wildcard lattice} x aliased loopback sources (IPv4 and ::1) x {TCP, TLS, TLS+authz} x {Rust API, C ABI}, and 3 000+ wildcard strings through WildcardIPv4::from_str and rodbus_address_filter_create",
            "§7 C16", TRUST + "loopback aliases stand for remote addresses"),
    "C18": ("e5-ffi", "model_checking",
            "FfiTrace.tla holds the conversion tables (WriteResult -> exception byte, exception / error -> request_error value, param_error for argument errors), the wire encoding and decoding (ModbusPdu.tla) and the completion protocol; every scenario is executed through the extern \"C\" functions (C-ABI server with programmable write callbacks observed by a raw client; C-ABI client channel against a scripted peer) and the recorded return codes, wire bytes, callback invocations (which, payload, count) and on_destroy counts are validated by TLC; configuration crossing the boundary is observed where it takes effect: queue depth, retry strategy (instants of the connection attempts), decode levels (the log of a C-ABI channel equals the log of a Rust channel at the same-named level), TLS client configuration (admission judged by TlsAdmission.tla), serial settings / PortState / RTU framing of RTU channels and servers (verif-hooks port opener)",
            "§7 C18", TRUST + "rodbus-ffi linked as rlib; language wrappers above the C ABI not exercised; for calls that report an argument error the error value passed to the completion is not prescribed, only that it fires exactly once"),
    "C19": ("e5-ffi", "model_checking",
            "per-type map semantics of the C-ABI database (add / update / delete / get, client reads, exception 02 on absent points) validated by TLC on random transaction / read sequences through rodbus_server_update_database and a raw client; atomicity: design-level all-interleavings model FfiDatabase_MC (lock per transaction holds, lock per operation is refuted as negative control) plus a stress run on the real code (writers setting a 125-register / 2000-coil block to one value, readers requiring uniform blocks; one run per point type, since each type has its own read path; two transactions adding the same absent index at the same instant: exactly one succeeds)",
            "§7 C19", TRUST + "atomicity on the real code is stress-sampled, as the property itself says"),
})

ENGINES = [
    {"name": "e1-session", "path": "harness/src/bin/e1_session.rs + spec/ServerSessionTrace.tla",
     "kind_free_text": "production server session (SessionTask::run) over a scripted in-memory stream under virtual time; ndjson trace validated by TLC against ServerRef.tla"},
    {"name": "e2-client", "path": "harness/src/bin/e2_client.rs + spec/Client.tla + spec/ClientTrace.tla",
     "kind_free_text": "production client request loop (ClientLoop::run via verif::ClientSession) under virtual time; ndjson trace validated by TLC against the Client.tla state machine"},
    {"name": "e3-lifecycle", "path": "harness/src/bin/e2_client.rs (mode task) + spec/Client.tla + spec/ClientTrace.tla",
     "kind_free_text": "production TcpChannelTask (enable / connect / retry / listener / request loop) with a harness connector under virtual time; validated by TLC against the life-cycle part of Client.tla"},
    {"name": "e4-servertask", "path": "harness/src/bin/e4_server.rs + spec/ServerTaskTrace.tla + AddressFilter.tla + TlsAdmission.tla",
     "kind_free_text": "TCP / TLS servers created through the public Rust and C ABI constructors, driven black-box over loopback sockets (real time) plus guarded hook events of the server task; validated by TLC"},
    {"name": "e5-ffi", "path": "harness/src/bin/e5_ffi.rs + spec/FfiTrace.tla + spec/FfiDatabase_MC.tla",
     "kind_free_text": "the C ABI through rodbus_ffi::ffi::rodbus_* (rlib): write-result forwarding, client operations against a scripted peer, point database sequences and atomicity stress; validated by TLC"},
]


def main():
    props = [json.loads(l)["id"] for l in open(os.path.join(ROOT, "properties.jsonl"))]
    pending = json.load(open(os.path.join(ROOT, "lib", "pending.json")))
    hooks = json.load(open(os.path.join(ROOT, "lib", "hooks.json")))
    m = {"version": 1, "setup_cmd": "bin/setup", "hooks": hooks, "engines": [], "checks": [], "not_applicable": [],
         "notes": "See DESIGN.md. known_findings.json lists fixed and known defects. bin/check exit codes: 0 held, 1 VIOLATION, 2 tool error."}
    for e in ENGINES:
        e = dict(e)
        e["serves_properties"] = [p for p in props if p in CLAIMS and CLAIMS[p][0] == e["name"]]
        m["engines"].append(e)
    for p in props:
        if p in CLAIMS:
            eng, cat, text, ref, note = CLAIMS[p]
            m["checks"].append({
                "property_id": p, "quick_cmd": f"bin/check {p} --tier quick",
                "thorough_cmd": f"bin/check {p} --tier thorough", "evidence_file": f"evidence/{p}.json",
                "replay_cmd_template": f"bin/check {p} --replay {{path}}", "engine": eng,
                "level_claimed": {"category": cat, "text": text, "design_ref": "DESIGN.md " + ref},
                "level_note": note,
                "technique": "explicit TLA+ specification checked with TLC: design-level model checking + trace validation of the implementation"})
        else:
            m["not_applicable"].append({"property_id": p, "reason": pending.get(p, "check not built yet in this snapshot")})
    json.dump(m, open(os.path.join(ROOT, "MANIFEST.json"), "w"), indent=1)
    print("claimed:", [c["property_id"] for c in m["checks"]])


if __name__ == "__main__":
    main()
